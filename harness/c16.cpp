// C16: reproducibility / independence of unrelated history — bitwise differential runs.
// Scenarios: twice (same root seed, same program), prefix (unrelated calls first),
// reuse (solver object used on a differently-sized problem first; deterministic solvers only).
#include "common/verif.hpp"
#include "common/gen.hpp"
#include <AIToolbox/Seeder.hpp>
#include <AIToolbox/MDP/Algorithms/ValueIteration.hpp>
#include <AIToolbox/MDP/Algorithms/PolicyIteration.hpp>
#include <AIToolbox/MDP/Algorithms/Utils/PolicyEvaluation.hpp>
#include <AIToolbox/MDP/Algorithms/QLearning.hpp>
#include <AIToolbox/MDP/Algorithms/MCTS.hpp>
#include <AIToolbox/MDP/Algorithms/PrioritizedSweeping.hpp>
#include <AIToolbox/MDP/Policies/QGreedyPolicy.hpp>
#include <AIToolbox/MDP/Policies/EpsilonPolicy.hpp>
#include <AIToolbox/MDP/Policies/QSoftmaxPolicy.hpp>
#include <AIToolbox/POMDP/Algorithms/IncrementalPruning.hpp>
#include <AIToolbox/POMDP/Algorithms/Witness.hpp>
#include <AIToolbox/POMDP/Algorithms/LinearSupport.hpp>
#include <AIToolbox/POMDP/Algorithms/PBVI.hpp>
#include <AIToolbox/POMDP/Algorithms/PERSEUS.hpp>
#include <AIToolbox/POMDP/Algorithms/AMDP.hpp>
#include <AIToolbox/POMDP/Algorithms/FastInformedBound.hpp>
#include <AIToolbox/POMDP/Algorithms/QMDP.hpp>
#include <AIToolbox/POMDP/Algorithms/BlindStrategies.hpp>
#include <AIToolbox/POMDP/Algorithms/POMCP.hpp>
#include <AIToolbox/POMDP/Algorithms/RTBSS.hpp>
#include <AIToolbox/POMDP/Algorithms/SARSOP.hpp>
#include <AIToolbox/POMDP/Environments/ChengD35.hpp>
#include <AIToolbox/Factored/Bandit/Algorithms/Utils/VariableElimination.hpp>
#include <AIToolbox/Factored/Bandit/Algorithms/Utils/GraphUtils.hpp>
#include <AIToolbox/Factored/Bandit/Algorithms/Utils/MaxPlus.hpp>
#include <AIToolbox/Factored/Bandit/Algorithms/Utils/LocalSearch.hpp>
#include <AIToolbox/Factored/Bandit/Algorithms/Utils/ReusingIterativeLocalSearch.hpp>
#include <AIToolbox/Factored/Bandit/Algorithms/Utils/MultiObjectiveVariableElimination.hpp>
#include <AIToolbox/POMDP/Algorithms/GapMin.hpp>
#include <AIToolbox/Verif/Hooks.hpp>
#include <AIToolbox/MDP/Algorithms/QLearning.hpp>
#include <AIToolbox/MDP/Algorithms/SARSAL.hpp>
#include <AIToolbox/MDP/Algorithms/PrioritizedSweeping.hpp>
#include <AIToolbox/Utils/Probability.hpp>
#include <AIToolbox/MDP/ThompsonModel.hpp>
#include <AIToolbox/MDP/Experience.hpp>
#include <AIToolbox/Seeder.hpp>
#include <AIToolbox/MDP/SparseModel.hpp>
#include <AIToolbox/POMDP/SparseModel.hpp>
#include <AIToolbox/MDP/MaximumLikelihoodModel.hpp>
#include <AIToolbox/MDP/Algorithms/DoubleQLearning.hpp>
#include <AIToolbox/MDP/Algorithms/DynaQ.hpp>
#include <AIToolbox/MDP/Policies/RandomPolicy.hpp>
#include <AIToolbox/MDP/Policies/Policy.hpp>
#include <AIToolbox/POMDP/Algorithms/rPOMCP.hpp>
#include <AIToolbox/POMDP/Algorithms/Utils/BeliefGenerator.hpp>
#include <AIToolbox/POMDP/Algorithms/Utils/Projecter.hpp>
#include <AIToolbox/Utils/Prune.hpp>
#include <AIToolbox/Utils/Polytope.hpp>
#include <AIToolbox/Bandit/Model.hpp>
#include <AIToolbox/Factored/Bandit/Environments/MiningProblem.hpp>
#include <memory>
#include <type_traits>

using namespace verif;
namespace A = AIToolbox;
using Out = std::vector<double>;

static void flat(Out & o, const A::Vector & v) { for (long i = 0; i < v.size(); ++i) o.push_back(v[i]); }
static void flat(Out & o, const A::Matrix2D & m) { for (long i = 0; i < m.rows(); ++i) for (long j = 0; j < m.cols(); ++j) o.push_back(m(i, j)); }
static void flat(Out & o, const A::POMDP::VList & l) {
    o.push_back((double)l.size());
    for (auto & e : l) { flat(o, e.values); o.push_back((double)e.action); for (auto x : e.observations) o.push_back((double)x); }
}
static void flat(Out & o, const A::POMDP::ValueFunction & vf) { o.push_back((double)vf.size()); for (auto & l : vf) flat(o, l); }

// problem generators (pure functions of the problem seed)
static MdpTables mdpOf(uint64_t ps, int shrink = 0) { Rng r(ps); size_t S = 2 + r.below(4) + shrink, Ac = 1 + r.below(3) + shrink; return randomMdp(r, S, Ac); }
static PomdpTables pomdpOf(uint64_t ps, int shrink = 0) { Rng r(ps); size_t S = 2 + r.below(2) + shrink, Ac = 1 + r.below(2) + shrink, O = 1 + r.below(2) + shrink; return randomPomdp(r, S, Ac, O); }

// same sizes as mdpOf(ps) / pomdpOf(ps), other content: what a solver object has seen before must not matter even when every
// buffer it keeps already has the right shape
static MdpTables mdpLike(uint64_t ps) { Rng r(ps); size_t S = 2 + r.below(4), Ac = 1 + r.below(3); Rng r2(ps ^ 0x777777); return randomMdp(r2, S, Ac); }
static PomdpTables pomdpLike(uint64_t ps) { Rng r(ps); size_t S = 2 + r.below(2), Ac = 1 + r.below(2), O = 1 + r.below(2); Rng r2(ps ^ 0x777777); return randomPomdp(r2, S, Ac, O); }

struct Subject { const char * name; bool deterministic; std::function<Out(uint64_t, int)> run; };

static std::vector<Subject> subjects() {
    std::vector<Subject> v;
    v.push_back({"ValueIteration", true, [](uint64_t ps, int mode) {
        A::MDP::ValueIteration vi(6, 0.0);
        if (mode == 1) { auto m0 = toDense(mdpOf(ps ^ 0xABCDEF, 1)); vi(m0); }
        auto m = toDense(mdpOf(ps)); if (mode == 2) vi(m); if (mode == 3) { auto m3 = toDense(mdpLike(ps)); vi(m3); } auto [var, vf, q] = vi(m);
        Out o; o.push_back(var); flat(o, vf.values); for (auto a : vf.actions) o.push_back((double)a); flat(o, q); return o; }});
    v.push_back({"ValueIteration(warm_start)", true, [](uint64_t ps, int mode) {
        // a configured start value function of the right size: every call on this object must start from it
        auto t = mdpOf(ps); auto m = toDense(t);
        A::MDP::ValueFunction start{A::MDP::Values(t.S), A::MDP::Actions(t.S, 0)};
        { Rng r(ps ^ 31337); for (size_t s = 0; s < t.S; ++s) start.values[s] = dyadicReward(r); }
        A::MDP::ValueIteration vi(5, (ps & 2) ? 0.0 : 0.01, start);
        if (mode == 1) { auto m0 = toDense(mdpOf(ps ^ 0xABCDEF, 1)); vi(m0); }
        if (mode == 2) { vi(m); }
        if (mode == 3) { auto m3 = toDense(mdpLike(ps)); vi(m3); }
        auto [var, vf, q] = vi(m);
        Out o; o.push_back(var); flat(o, vf.values); for (auto a : vf.actions) o.push_back((double)a); flat(o, q);
        // the configured parameter is part of the object's observable state
        const auto & kept = vi.getValueFunction(); o.push_back((double)kept.values.size()); flat(o, kept.values);
        return o; }});
    v.push_back({"PolicyIteration", true, [](uint64_t ps, int mode) {
        A::MDP::PolicyIteration pi(50, 1e-6);
        if (mode == 1) { auto m0 = toDense(mdpOf(ps ^ 0xABCDEF, 1)); pi(m0); }
        auto m = toDense(mdpOf(ps)); if (mode == 2) pi(m); if (mode == 3) { auto m3 = toDense(mdpLike(ps)); pi(m3); } auto q = pi(m); Out o; flat(o, q); return o; }});
    v.push_back({"IncrementalPruning", true, [](uint64_t ps, int mode) {
        A::POMDP::IncrementalPruning s(2, 0.0);
        if (mode == 1) { auto m0 = toDense(pomdpOf(ps ^ 0xABCDEF, 1)); s(m0); }
        auto m = toDense(pomdpOf(ps)); if (mode == 2) s(m); if (mode == 3) { auto m3 = toDense(pomdpLike(ps)); s(m3); } auto [var, vf] = s(m); Out o; o.push_back(var); flat(o, vf); return o; }});
    v.push_back({"Witness", true, [](uint64_t ps, int mode) {
        A::POMDP::Witness s(2, 0.0);
        if (mode == 1) { auto m0 = toDense(pomdpOf(ps ^ 0xABCDEF, 1)); s(m0); }
        auto m = toDense(pomdpOf(ps)); if (mode == 2) s(m); if (mode == 3) { auto m3 = toDense(pomdpLike(ps)); s(m3); } auto [var, vf] = s(m); Out o; o.push_back(var); flat(o, vf); return o; }});
    v.push_back({"LinearSupport", true, [](uint64_t ps, int mode) {
        A::POMDP::LinearSupport s(2, 0.0);
        if (mode == 1) { auto m0 = toDense(pomdpOf(ps ^ 0xABCDEF, 1)); s(m0); }
        auto m = toDense(pomdpOf(ps)); if (mode == 2) s(m); if (mode == 3) { auto m3 = toDense(pomdpLike(ps)); s(m3); } auto [var, vf] = s(m); Out o; o.push_back(var); flat(o, vf); return o; }});
    v.push_back({"FastInformedBound", true, [](uint64_t ps, int mode) {
        A::POMDP::FastInformedBound s(20, 1e-6);
        if (mode == 1) { auto m0 = toDense(pomdpOf(ps ^ 0xABCDEF, 1)); s(m0); }
        auto m = toDense(pomdpOf(ps)); if (mode == 2) s(m); if (mode == 3) { auto m3 = toDense(pomdpLike(ps)); s(m3); } auto [var, q] = s(m); Out o; o.push_back(var); flat(o, q); return o; }});
    v.push_back({"QMDP", true, [](uint64_t ps, int mode) {
        A::POMDP::QMDP s(20, 1e-6);
        if (mode == 1) { auto m0 = toDense(pomdpOf(ps ^ 0xABCDEF, 1)); s(m0); }
        auto m = toDense(pomdpOf(ps)); if (mode == 2) s(m); if (mode == 3) { auto m3 = toDense(pomdpLike(ps)); s(m3); } auto [var, vf, q] = s(m); Out o; o.push_back(var); flat(o, vf); flat(o, q); return o; }});
    v.push_back({"BlindStrategies", true, [](uint64_t ps, int mode) {
        A::POMDP::BlindStrategies s(20, 1e-6);
        if (mode == 1) { auto m0 = toDense(pomdpOf(ps ^ 0xABCDEF, 1)); s(m0, true); }
        auto m = toDense(pomdpOf(ps)); if (mode == 2) s(m, (ps & 1) != 0); if (mode == 3) { auto m3 = toDense(pomdpLike(ps)); s(m3, (ps & 1) == 0); } auto [var, vl] = s(m, (ps & 1) != 0); Out o; o.push_back(var); flat(o, vl); return o; }});
    v.push_back({"PBVI", false, [](uint64_t ps, int) {
        A::POMDP::PBVI s(6, 2, 0.0);
        auto m = toDense(pomdpOf(ps)); auto [var, vf] = s(m); Out o; o.push_back(var); flat(o, vf); return o; }});
    v.push_back({"PERSEUS", false, [](uint64_t ps, int) {
        A::POMDP::PERSEUS s(6, 3, 0.0);
        auto p = pomdpOf(ps); auto m = toDense(p); auto [var, vf] = s(m, p.R.minCoeff()); Out o; o.push_back(var); flat(o, vf); return o; }});
    v.push_back({"AMDP", false, [](uint64_t ps, int) {
        Rng r(ps ^ 77); A::POMDP::AMDP s(20 + r.below(20), 2 + r.below(4));
        auto p = pomdpOf(ps); auto m = toDense(p);
        auto [mdp, disc] = s.discretizeDense(m);
        Out o; o.push_back((double)mdp.getS());
        for (size_t a = 0; a < mdp.getA(); ++a) flat(o, mdp.getTransitionFunction(a));
        flat(o, mdp.getRewardFunction());
        // the discretizer itself is part of the result: evaluate it on fixed beliefs
        Rng rb(ps ^ 99); for (int i = 0; i < 8; ++i) { auto b = dyadicBelief(rb, p.S); o.push_back((double)disc(b)); }
        return o; }});
    v.push_back({"POMCP", false, [](uint64_t ps, int) {
        auto p = pomdpOf(ps); auto m = toDense(p);
        A::POMDP::POMCP<decltype(m)> s(m, 30, 60, 2.0);
        Rng rb(ps ^ 5); auto b = dyadicBelief(rb, p.S);
        Out o; o.push_back((double)s.sampleAction(b, 3)); o.push_back((double)s.sampleAction(b, 2)); return o; }});
    v.push_back({"MCTS", false, [](uint64_t ps, int) {
        auto t = mdpOf(ps); auto m = toDense(t);
        A::MDP::MCTS<decltype(m)> s(m, 60, 2.0);
        Out o; o.push_back((double)s.sampleAction(0, 3)); o.push_back((double)s.sampleAction(t.S - 1, 2)); return o; }});
    v.push_back({"RTBSS", false, [](uint64_t ps, int) {
        auto p = pomdpOf(ps); auto m = toDense(p);
        A::POMDP::RTBSS<decltype(m)> s(m, std::max(0.0, p.R.maxCoeff()));
        Rng rb(ps ^ 5); auto b = dyadicBelief(rb, p.S);
        auto [a, val] = s.sampleAction(b, 2); Out o; o.push_back((double)a); o.push_back(val); return o; }});
    v.push_back({"ModelSampling", false, [](uint64_t ps, int) {
        auto p = pomdpOf(ps); auto m = toDense(p);
        Out o; size_t s = 0;
        for (int i = 0; i < 12; ++i) { auto [s1, ob, r] = m.sampleSOR(s, i % p.A); o.push_back((double)s1); o.push_back((double)ob); o.push_back(r); s = s1; }
        return o; }});
    v.push_back({"EpsilonSoftmaxPolicies", false, [](uint64_t ps, int) {
        auto t = mdpOf(ps); auto m = toDense(t);
        A::MDP::ValueIteration vi(4, 0.0); auto [var, vf, q] = vi(m);
        A::MDP::QGreedyPolicy g(q); A::MDP::EpsilonPolicy e(g, 0.5); A::MDP::QSoftmaxPolicy sm(q, 1.0);
        Out o; for (int i = 0; i < 10; ++i) { o.push_back((double)e.sampleAction(i % t.S)); o.push_back((double)sm.sampleAction(i % t.S)); o.push_back((double)g.sampleAction(i % t.S)); }
        return o; }});
    v.push_back({"VariableElimination", true, [](uint64_t ps, int mode) {
        namespace FB = A::Factored::Bandit;
        FB::VariableElimination ve;
        auto mk = [](uint64_t seed, int extra) {
            Rng r(seed); size_t n = 2 + r.below(3) + extra; A::Factored::Action space(n);
            for (auto & d : space) d = 1 + r.below(3);
            std::vector<FB::QFunctionRule> rules;
            size_t nr = 2 + r.below(5);
            for (size_t i = 0; i < nr; ++i) {
                A::Factored::PartialAction pa;
                for (size_t k = 0; k < n; ++k) if (r.coin()) { pa.first.push_back(k); pa.second.push_back(r.below(space[k])); }
                if (pa.first.empty()) { pa.first.push_back(0); pa.second.push_back(r.below(space[0])); }
                rules.push_back({pa, (double)r.range(-16, 16) / 4.0});
            }
            return std::make_pair(space, rules);
        };
        if (mode == 1) { auto [sp0, r0] = mk(ps ^ 0xABCDEF, 1); auto g0 = FB::MakeGraph<FB::VariableElimination>()(r0, sp0); FB::UpdateGraph<FB::VariableElimination>()(g0, r0, sp0); ve(sp0, g0); }
        auto [sp, rules] = mk(ps, 0); if (mode == 2) { auto g2 = FB::MakeGraph<FB::VariableElimination>()(rules, sp); FB::UpdateGraph<FB::VariableElimination>()(g2, rules, sp); ve(sp, g2); }
        auto g = FB::MakeGraph<FB::VariableElimination>()(rules, sp); FB::UpdateGraph<FB::VariableElimination>()(g, rules, sp); auto [act, val] = ve(sp, g);
        Out o; o.push_back(val); for (auto a : act) o.push_back((double)a); return o; }});
    // --- factored maximisers (approximate ones are seeded from the Seeder at construction)
    auto mkRules = [](uint64_t seed, int extra) {
        namespace FB = A::Factored::Bandit;
        Rng r(seed); size_t n = 2 + r.below(3) + extra; A::Factored::Action space(n);
        for (auto & d : space) d = 1 + r.below(3);
        std::vector<FB::QFunctionRule> rules;
        size_t nr = 2 + r.below(5);
        for (size_t i = 0; i < nr; ++i) {
            A::Factored::PartialAction pa;
            for (size_t k = 0; k < n; ++k) if (r.coin()) { pa.first.push_back(k); pa.second.push_back(r.below(space[k])); }
            if (pa.first.empty()) { pa.first.push_back(0); pa.second.push_back(r.below(space[0])); }
            rules.push_back({pa, (double)r.range(0, 16) / 4.0});
        }
        return std::make_pair(space, rules);
    };
    v.push_back({"MaxPlus", false, [mkRules](uint64_t ps, int) {
        namespace FB = A::Factored::Bandit; FB::MaxPlus mp(5);
        auto [sp, rules] = mkRules(ps, 0); auto g = FB::MakeGraph<FB::MaxPlus>()(rules, sp); FB::UpdateGraph<FB::MaxPlus>()(g, rules, sp);
        auto [act, val] = mp(sp, g); Out o; o.push_back(val); for (auto a : act) o.push_back((double)a); return o; }});
    v.push_back({"LocalSearch", false, [mkRules](uint64_t ps, int) {
        namespace FB = A::Factored::Bandit; FB::LocalSearch ls;
        auto [sp, rules] = mkRules(ps, 0); auto g = FB::MakeGraph<FB::LocalSearch>()(rules, sp); FB::UpdateGraph<FB::LocalSearch>()(g, rules, sp);
        auto [act, val] = ls(sp, g); Out o; o.push_back(val); for (auto a : act) o.push_back((double)a); return o; }});
    v.push_back({"ReusingIterativeLocalSearch", false, [mkRules](uint64_t ps, int) {
        namespace FB = A::Factored::Bandit; FB::ReusingIterativeLocalSearch rils(0.3, 0.1, 6, true);
        auto [sp, rules] = mkRules(ps, 0); auto g = FB::MakeGraph<FB::ReusingIterativeLocalSearch>()(rules, sp); FB::UpdateGraph<FB::ReusingIterativeLocalSearch>()(g, rules, sp);
        auto [act, val] = rils(sp, g); auto [act2, val2] = rils(sp, g);
        Out o; o.push_back(val); for (auto a : act) o.push_back((double)a); o.push_back(val2); for (auto a : act2) o.push_back((double)a); return o; }});
    // --- anytime POMDP solvers through the iteration-budget hook (deterministic)
    v.push_back({"SARSOP(budget)", true, [](uint64_t ps, int mode) {
        A::POMDP::SARSOP s(0.01, 0.1);
        A::Verif::anytimeObserver = [](const A::Verif::AnytimeSnapshot & sn) { return sn.iteration < 6; };
        auto run = [&](uint64_t seed, int extra) { auto p = pomdpOf(seed, extra); auto m = toDense(p); A::Vector b = A::Vector::Constant(p.S, 1.0 / p.S); return s(m, b); };
        if (mode == 1) run(ps ^ 0xABCDEF, 1);
        if (mode == 2) run(ps, 0);
        if (mode == 3) { auto p3 = pomdpLike(ps); auto m3 = toDense(p3); A::Vector b3 = A::Vector::Constant(p3.S, 1.0 / p3.S); s(m3, b3); }
        auto [lb, ub, vl, q] = run(ps, 0);
        A::Verif::anytimeObserver = nullptr;
        Out o; o.push_back(lb); o.push_back(ub); flat(o, vl); flat(o, q); return o; }});
    v.push_back({"GapMin(budget)", true, [](uint64_t ps, int mode) {
        A::POMDP::GapMin s(0.01, 3);
        A::Verif::anytimeObserver = [](const A::Verif::AnytimeSnapshot & sn) { return sn.iteration < 2; };   // 2 iterations: the third alone took > 10 min under ASan on some S = 2 instances (thorough seeds 2, 3)
        // smallest size class only (S = 2, A, O in 1..2): on larger random POMDPs a single GapMin iteration can take minutes under ASan
        // (thorough seed 1 cases 1758, 2038 were killed after 120 s)
        auto run = [&](uint64_t seed, int extra) { (void)extra; Rng rr(seed); auto p = randomPomdp(rr, 2, 1 + rr.below(2), 1 + rr.below(2)); auto m = toDense(p); A::Vector b = A::Vector::Constant(p.S, 1.0 / p.S); return s(m, b); };
        if (mode == 1) run(ps ^ 0xABCDEF, 0);   // another problem of the small size class (usually other sizes): one size up, single GapMin iterations can take minutes under ASan
        if (mode == 2) run(ps, 0);
        // mode 3 (same-size other problem) is not run for GapMin: under ASan some random POMDPs take minutes per iteration (see C03)
        auto [lb, ub, vl, q] = run(ps, 0);
        A::Verif::anytimeObserver = nullptr;
        Out o; o.push_back(lb); o.push_back(ub); flat(o, vl); flat(o, q); return o; }});
    // --- learners on a fixed experience stream (deterministic functions of the stream)
    // random-variate helpers and the models built on them: every variate must come from the engine handed in (seeded per
    // object from Seeder), never from a distribution object shared across calls (libstdc++'s gamma/normal distributions cache a deviate)
    v.push_back({"DirichletBetaSampling", false, [](uint64_t ps, int) {
        Rng r(ps); Out o;
        A::RandomEngine e1((unsigned)A::Seeder::getSeed());
        for (int k = 0; k < 3; ++k) {
            const size_t n = 2 + r.below(4);
            A::Vector params(n); for (size_t i = 0; i < n; ++i) params[i] = 0.5 + 0.25 * (double)r.below(12);
            auto d = A::sampleDirichletDistribution(params, e1); flat(o, d);
            o.push_back(A::sampleBetaDistribution(0.5 + (double)r.below(5), 0.5 + (double)r.below(5), e1));
        }
        return o; }});
    v.push_back({"ThompsonModel", false, [](uint64_t ps, int) {
        auto t = mdpOf(ps); auto m = toDense(t);
        A::MDP::Experience exp(t.S, t.A);
        Rng r(ps ^ 77); size_t s = 0;
        for (int i = 0; i < 40; ++i) { size_t a = r.below(t.A); auto [s1, rew] = m.sampleSR(s, a); exp.record(s, a, s1, rew); s = s1; }
        A::MDP::ThompsonModel<A::MDP::Experience> tm(exp, 0.9);
        tm.sync();
        Out o; for (size_t a = 0; a < t.A; ++a) flat(o, A::Matrix2D(tm.getTransitionFunction(a)));
        tm.sync(0, 0); for (size_t s1 = 0; s1 < t.S; ++s1) o.push_back(tm.getTransitionProbability(0, 0, s1));
        return o; }});
    v.push_back({"QLearning+SARSAL+PrioritizedSweeping", true, [](uint64_t ps, int mode) {
        auto t = mdpOf(ps); auto m = toDense(t);
        A::MDP::QLearning ql(t.S, t.A, t.discount, 0.5); A::MDP::SARSAL sl(t.S, t.A, t.discount, 0.5, 0.5, 0.001);
        A::MDP::PrioritizedSweeping<decltype(m)> psw(m, 0.001, 20);
        auto feed = [&](uint64_t seed, int n) { Rng r(seed); size_t s = 0, a = 0; for (int i = 0; i < n; ++i) {
            size_t s1 = r.below(t.S), a1 = r.below(t.A); double rew = dyadicReward(r);
            ql.stepUpdateQ(s, a, s1, rew); sl.stepUpdateQ(s, a, s1, a1, rew); psw.stepUpdateQ(s, a); psw.batchUpdateQ(); s = s1; a = a1; } };
        (void)mode; feed(ps ^ 17, 40);
        Out o; flat(o, ql.getQFunction()); flat(o, sl.getQFunction()); flat(o, psw.getQFunction()); return o; }});
    // --- round 4: more solver objects of the inventory
    v.push_back({"PolicyEvaluation", true, [](uint64_t ps, int mode) {
        auto t = mdpOf(ps); auto m = toDense(t);
        auto qOf = [](uint64_t seed, size_t S, size_t Ac) { Rng r(seed); A::MDP::QFunction q(S, Ac); for (size_t s = 0; s < S; ++s) for (size_t a = 0; a < Ac; ++a) q(s, a) = dyadicReward(r); return q; };
        auto q0 = qOf(ps ^ 3, t.S, t.A); A::MDP::QGreedyPolicy pol(q0);
        A::MDP::Values start;   // half of the cases: a configured start of the right size
        if (ps & 4) { start = A::MDP::Values(t.S); Rng r(ps ^ 41); for (size_t s = 0; s < t.S; ++s) start[s] = dyadicReward(r); }
        A::MDP::PolicyEvaluation<decltype(m)> pe(m, 5, (ps & 2) ? 0.0 : 0.01, start);
        if (mode == 2) pe(pol);
        if (mode == 1 || mode == 3) { auto q3 = qOf(ps ^ 0x777, t.S, t.A); A::MDP::QGreedyPolicy pol3(q3); pe(pol3); }   // other policy, same model (the model is bound at construction)
        auto [var, vals, q] = pe(pol);
        Out o; o.push_back(var); flat(o, vals); flat(o, q); const auto & kept = pe.getValues(); o.push_back((double)kept.size()); flat(o, kept); return o; }});
    // Pruner owns a persistent lp_solve problem (WitnessLP lp_): every call starts with lp_.reset()
    auto vlistOf = [](uint64_t seed, size_t S, int scale) {
        Rng r(seed); size_t n = 3 + r.below(6); A::POMDP::VList l;
        for (size_t i = 0; i < n; ++i) { A::MDP::Values v(S); for (size_t s = 0; s < S; ++s) v[s] = dyadicReward(r, (scale && r.coin(1, 3)) ? scale : 0); l.emplace_back(std::move(v), r.below(3), A::POMDP::VObs(0)); }
        return l; };
    auto prunerSubject = [vlistOf](int scale) { return [vlistOf, scale](uint64_t ps, int mode) {
        Rng r(ps ^ 9); size_t S = 2 + r.below(3);
        A::Pruner pr(S);
        auto use = [&](A::POMDP::VList l) { auto e = pr(std::begin(l), std::end(l), A::POMDP::unwrap); l.erase(e, std::end(l)); return l; };
        if (mode == 1 || mode == 3) use(vlistOf(ps ^ 0xABCDEF, S, 0));
        if (mode == 2) use(vlistOf(ps, S, scale));
        if (mode == 4) { auto big = vlistOf(ps ^ 0xABCDEF, S, 0); for (auto & e : big) e.values *= 1073741824.0; use(big); }   // everything at 2^30: WitnessLP picks a row scale
        auto kept = use(vlistOf(ps, S, scale));
        Out o; flat(o, kept); return o; }; };
    v.push_back({"Pruner", true, prunerSubject(0)});
    v.push_back({"Pruner(mixed_magnitudes)", true, prunerSubject(24)});
    v.push_back({"Projecter", true, [vlistOf](uint64_t ps, int mode) {
        auto p = pomdpOf(ps); auto m = toDense(p);
        A::POMDP::Projecter<decltype(m)> proj(m);
        auto l = vlistOf(ps ^ 21, p.S, 0);
        if (mode == 1 || mode == 3) proj(vlistOf(ps ^ 22, p.S, 0));
        if (mode == 2) proj(l);
        auto table = proj(l);
        Out o; for (size_t a = 0; a < p.A; ++a) for (size_t ob = 0; ob < p.O; ++ob) flat(o, table[a][ob]);
        auto row = proj(l, p.A - 1); for (size_t ob = 0; ob < p.O; ++ob) flat(o, row[ob]);
        return o; }});
    v.push_back({"WitnessLP", true, [vlistOf](uint64_t ps, int mode) {
        Rng r(ps ^ 9); size_t S = 2 + r.below(3);
        A::WitnessLP lp(S);
        auto use = [&](const A::POMDP::VList & l) {
            Out o; lp.reset(); lp.allocate(l.size());
            lp.addOptimalRow(l[0].values);
            for (size_t i = 1; i < l.size(); ++i) {
                auto w = lp.findWitness(l[i].values);
                o.push_back(w ? 1.0 : 0.0); if (w) { flat(o, *w); lp.addOptimalRow(l[i].values); }
            }
            return o; };
        if (mode == 1 || mode == 3) use(vlistOf(ps ^ 0xABCDEF, S, 0));
        if (mode == 2) use(vlistOf(ps, S, 0));
        if (mode == 4) { auto big = vlistOf(ps ^ 0xABCDEF, S, 0); for (auto & e : big) e.values *= 1073741824.0; use(big); }
        return use(vlistOf(ps, S, 0)); }});
    // SARSOP is not a subject here: under ASan it does not finish within the per-case budget (and does not converge at all on
    // several small problems, see DESIGN §12); its anytime loop is exercised by C03 through the iteration-budget hook.
    return v;
}


// ---------------------------------------------------------------------------------------------------------------------
// engine-carrying objects as steppers: make(ps) constructs ONE object (drawing its seed(s) from Seeder), step(k) is one
// batch of calls on it.  Scenarios on top of the Subject ones: interleave (two objects, calls interleaved vs in sequence),
// copy (a copy carries the engine state and leaves the original alone), root_seed (another root seed gives another stream).
struct Obj { std::function<Out(int)> step; std::function<Obj()> clone; };
// sharesEngine: the object holds a reference to ANOTHER engine-owning object (its model) and samples through it; a copy shares
// that model, so copy and original are not independent by design — the copy scenarios are skipped for those
template <class T, class F> static Obj wrapObj(std::shared_ptr<T> p, F f, std::shared_ptr<void> keep = nullptr, bool sharesEngine = false) {
    Obj o; o.step = [p, f, keep](int k) { return f(*p, k); };
    if constexpr (std::is_copy_constructible_v<T>) { if (!sharesEngine) o.clone = [p, f, keep]() { return wrapObj(std::make_shared<T>(*p), f, keep); }; }
    return o;
}
// drawsSeeds: a call constructs an engine-owning helper (PBVI/PERSEUS build a BeliefGenerator per call), i.e. it advances the
// Seeder: calls of two such objects do not commute (Gen/C16Rng.callsThatDrawSeeds pins the list); interleave is skipped
struct Stepper { const char * name; bool seedSensitive; int nsteps; std::function<Obj(uint64_t)> make; bool drawsSeeds = false; };

static A::POMDP::SparseModel<A::MDP::SparseModel> toSparseNoCheck(const PomdpTables & p) {
    A::SparseMatrix3D T(p.A, A::SparseMatrix2D(p.S, p.S)), Ob(p.A, A::SparseMatrix2D(p.S, p.O)); A::SparseMatrix2D R(p.S, p.A);
    for (size_t a = 0; a < p.A; ++a) { T[a] = p.T[a].sparseView(); Ob[a] = p.Ob[a].sparseView(); T[a].makeCompressed(); Ob[a].makeCompressed(); }
    R = p.R.sparseView(); R.makeCompressed();
    return A::POMDP::SparseModel<A::MDP::SparseModel>(A::NO_CHECK, p.O, std::move(Ob), A::NO_CHECK, p.S, p.A, std::move(T), std::move(R), p.discount);
}
// a POMDP whose observation does not depend on the state reached: uniform over 4 observations, so the observation stream is
// a function of the POMDP layer's own engine only
static PomdpTables uniformObs(uint64_t ps) { auto p = pomdpOf(ps); p.O = 4; p.Ob.assign(p.A, A::Matrix2D::Constant(p.S, 4, 0.25)); return p; }

static std::vector<Stepper> steppers() {
    std::vector<Stepper> v;
    v.push_back({"MDP::Model::sampleSR", false, 3, [](uint64_t ps) {
        auto t = mdpOf(ps); auto m = std::make_shared<A::MDP::Model>(toDense(t));
        return wrapObj(m, [t](A::MDP::Model & mm, int k) { Out o; size_t s = k % t.S; for (int i = 0; i < 8; ++i) { auto [s1, r] = mm.sampleSR(s, (i + k) % t.A); o.push_back((double)s1); o.push_back(r); s = s1; } return o; }); }});
    v.push_back({"MDP::SparseModel::sampleSR", false, 3, [](uint64_t ps) {
        auto t = mdpOf(ps); auto m = std::make_shared<A::MDP::SparseModel>(toDense(t));
        return wrapObj(m, [t](A::MDP::SparseModel & mm, int k) { Out o; size_t s = k % t.S; for (int i = 0; i < 8; ++i) { auto [s1, r] = mm.sampleSR(s, (i + k) % t.A); o.push_back((double)s1); o.push_back(r); s = s1; } return o; }); }});
    v.push_back({"POMDP::Model(checked)::sampleSOR", false, 3, [](uint64_t ps) {
        auto p = pomdpOf(ps); auto d = toSparseNoCheck(p);
        auto m = std::make_shared<A::POMDP::Model<A::MDP::Model>>(d);   // converting constructor (from another model type): checks, draws two seeds
        return wrapObj(m, [p](A::POMDP::Model<A::MDP::Model> & mm, int k) { Out o; size_t s = k % p.S; for (int i = 0; i < 8; ++i) { auto [s1, ob, r] = mm.sampleSOR(s, (i + k) % p.A); o.push_back((double)s1); o.push_back((double)ob); o.push_back(r); s = s1; } return o; }); }});
    // observation streams of the NO_CHECK-constructed POMDP models (32 draws over 4 equiprobable observations per step)
    v.push_back({"POMDP::Model(NO_CHECK)::observations", true, 3, [](uint64_t ps) {
        auto p = uniformObs(ps); auto m = std::make_shared<A::POMDP::Model<A::MDP::Model>>(toDense(p));
        return wrapObj(m, [p](A::POMDP::Model<A::MDP::Model> & mm, int k) { Out o; for (int i = 0; i < 32; ++i) { auto [ob, r] = mm.sampleOR(i % p.S, (i + k) % p.A, (i + 1) % p.S); o.push_back((double)ob); (void)r; } return o; }); }});
    v.push_back({"POMDP::SparseModel(NO_CHECK)::observations", true, 3, [](uint64_t ps) {
        auto p = uniformObs(ps); auto m = std::make_shared<A::POMDP::SparseModel<A::MDP::SparseModel>>(toSparseNoCheck(p));
        return wrapObj(m, [p](A::POMDP::SparseModel<A::MDP::SparseModel> & mm, int k) { Out o; for (int i = 0; i < 32; ++i) { auto [ob, r] = mm.sampleOR(i % p.S, (i + k) % p.A, (i + 1) % p.S); o.push_back((double)ob); (void)r; } return o; }); }});
    v.push_back({"POMDP::Model(checked)::observations", true, 3, [](uint64_t ps) {
        auto p = uniformObs(ps); auto d = toSparseNoCheck(p); auto m = std::make_shared<A::POMDP::Model<A::MDP::Model>>(d);
        return wrapObj(m, [p](A::POMDP::Model<A::MDP::Model> & mm, int k) { Out o; for (int i = 0; i < 32; ++i) { auto [ob, r] = mm.sampleOR(i % p.S, (i + k) % p.A, (i + 1) % p.S); o.push_back((double)ob); (void)r; } return o; }); }});
    v.push_back({"DoubleQLearning", true, 3, [](uint64_t ps) {
        auto t = mdpOf(ps); auto l = std::make_shared<A::MDP::DoubleQLearning>(t.S, t.A, t.discount, 0.5);
        return wrapObj(l, [t, ps](A::MDP::DoubleQLearning & q, int k) { Rng r(ps ^ (uint64_t)(k + 1)); size_t s = 0;
            for (int i = 0; i < 40; ++i) { size_t a = r.below(t.A), s1 = r.below(t.S); q.stepUpdateQ(s, a, s1, 1.0 + (double)r.below(8)); s = s1; }
            Out o; flat(o, q.getQFunctionA()); flat(o, A::MDP::QFunction(q.getQFunctionB())); return o; }); }});
    v.push_back({"DynaQ", false, 3, [](uint64_t ps) {
        auto t = mdpOf(ps); auto m = std::make_shared<A::MDP::Model>(toDense(t));
        auto l = std::make_shared<A::MDP::DynaQ<A::MDP::Model>>(*m, 0.5, 5);
        return wrapObj(l, [t, ps](A::MDP::DynaQ<A::MDP::Model> & q, int k) { Rng r(ps ^ (uint64_t)(k + 1)); size_t s = 0;
            for (int i = 0; i < 10; ++i) { size_t a = r.below(t.A), s1 = r.below(t.S); q.stepUpdateQ(s, a, s1, dyadicReward(r)); q.batchUpdateQ(); s = s1; }
            Out o; flat(o, q.getQFunction()); return o; }, m, true); }});
    // one engine per stepper: a stream that differs because ANOTHER policy in the same subject is seeded would hide an unseeded one
    auto tieQ = [](uint64_t ps, size_t S) { Rng r(ps ^ 3); A::MDP::QFunction q(S, 4); for (size_t s = 0; s < S; ++s) for (size_t a = 0; a < 4; ++a) q(s, a) = (double)r.below(2); return q; };   // many exact ties: greedy draws
    v.push_back({"MDP::QGreedyPolicy::sampleAction", true, 3, [tieQ](uint64_t ps) {
        struct Pack { A::MDP::QFunction q; A::MDP::QGreedyPolicy g; Pack(A::MDP::QFunction qq) : q(std::move(qq)), g(q) {} Pack(const Pack &) = delete; };
        auto t = mdpOf(ps); A::MDP::QFunction q = A::MDP::QFunction::Zero(t.S, 4);   // all tied: every draw is a uniform pick
        auto pk = std::make_shared<Pack>(q);
        return wrapObj(pk, [t](Pack & p, int k) { Out o; for (int i = 0; i < 32; ++i) o.push_back((double)p.g.sampleAction((i + k) % t.S)); return o; }); }});
    v.push_back({"MDP::QSoftmaxPolicy::sampleAction", true, 3, [tieQ](uint64_t ps) {
        struct Pack { A::MDP::QFunction q; A::MDP::QSoftmaxPolicy g; Pack(A::MDP::QFunction qq) : q(std::move(qq)), g(q, 1.0) {} Pack(const Pack &) = delete; };
        auto t = mdpOf(ps); auto pk = std::make_shared<Pack>(tieQ(ps, t.S));
        return wrapObj(pk, [t](Pack & p, int k) { Out o; for (int i = 0; i < 32; ++i) o.push_back((double)p.g.sampleAction((i + k) % t.S)); return o; }); }});
    v.push_back({"MDP::EpsilonPolicy(QGreedy)::sampleAction", false, 3, [tieQ](uint64_t ps) {
        struct Pack { A::MDP::QFunction q; A::MDP::QGreedyPolicy g; A::MDP::EpsilonPolicy e; Pack(A::MDP::QFunction qq) : q(std::move(qq)), g(q), e(g, 0.5) {} Pack(const Pack &) = delete; };
        auto t = mdpOf(ps); auto pk = std::make_shared<Pack>(tieQ(ps, t.S));
        return wrapObj(pk, [t](Pack & p, int k) { Out o; for (int i = 0; i < 32; ++i) o.push_back((double)p.e.sampleAction((i + k) % t.S)); return o; }); }});
    v.push_back({"MDP::RandomPolicy::sampleAction", true, 3, [](uint64_t ps) {
        auto t = mdpOf(ps); auto pk = std::make_shared<A::MDP::RandomPolicy>(t.S, 4);
        return wrapObj(pk, [t](A::MDP::RandomPolicy & p, int k) { Out o; for (int i = 0; i < 32; ++i) o.push_back((double)p.sampleAction((i + k) % t.S)); return o; }); }});
    v.push_back({"MDP::Policy(matrix)::sampleAction", true, 3, [](uint64_t ps) {
        auto t = mdpOf(ps); auto pk = std::make_shared<A::MDP::Policy>(t.S, 4);    // uniform policy table
        // MDP::Policy's hand-written copy constructor builds a NEW PolicyInterface base (draws a fresh seed): a copy is a newly created
        // object, not a replica of the engine state — by design, so the copy scenarios (which expect a replica) are skipped
        return wrapObj(pk, [t](A::MDP::Policy & p, int k) { Out o; for (int i = 0; i < 32; ++i) o.push_back((double)p.sampleAction((i + k) % t.S)); return o; }, nullptr, true); }});
    v.push_back({"MCTS", false, 2, [](uint64_t ps) {
        auto t = mdpOf(ps); auto m = std::make_shared<A::MDP::Model>(toDense(t));
        auto s = std::make_shared<A::MDP::MCTS<A::MDP::Model>>(*m, 40, 2.0);
        return wrapObj(s, [t](A::MDP::MCTS<A::MDP::Model> & x, int k) { Out o; o.push_back((double)x.sampleAction(k % t.S, 3)); o.push_back((double)x.sampleAction((k + 1) % t.S, 2)); return o; }, m, true); }});
    v.push_back({"POMCP", false, 2, [](uint64_t ps) {
        using M = A::POMDP::Model<A::MDP::Model>; auto p = pomdpOf(ps); auto m = std::make_shared<M>(toDense(p));
        auto s = std::make_shared<A::POMDP::POMCP<M>>(*m, 20, 40, 2.0);
        return wrapObj(s, [p, ps](A::POMDP::POMCP<M> & x, int k) { Rng rb(ps ^ (uint64_t)(5 + k)); auto b = dyadicBelief(rb, p.S); Out o; o.push_back((double)x.sampleAction(b, 3)); return o; }, m, true); }});
    v.push_back({"rPOMCP", false, 2, [](uint64_t ps) {
        using M = A::POMDP::Model<A::MDP::Model>; auto p = pomdpOf(ps); auto m = std::make_shared<M>(toDense(p));
        auto s = std::make_shared<A::POMDP::rPOMCP<M, true>>(*m, 20, 40, 2.0, 10);
        return wrapObj(s, [p, ps](A::POMDP::rPOMCP<M, true> & x, int k) { Rng rb(ps ^ (uint64_t)(5 + k)); auto b = dyadicBelief(rb, p.S); Out o; o.push_back((double)x.sampleAction(b, 3)); return o; }, m, true); }});
    v.push_back({"PBVI(object)", false, 2, [](uint64_t ps) {
        auto p = pomdpOf(ps); auto m = std::make_shared<A::POMDP::Model<A::MDP::Model>>(toDense(p));
        auto s = std::make_shared<A::POMDP::PBVI>(6, 2, 0.0);
        return wrapObj(s, [m](A::POMDP::PBVI & x, int) { auto [var, vf] = x(*m); Out o; o.push_back(var); flat(o, vf); return o; }, m); }, true});
    v.push_back({"PERSEUS(object)", false, 2, [](uint64_t ps) {
        auto p = pomdpOf(ps); auto m = std::make_shared<A::POMDP::Model<A::MDP::Model>>(toDense(p));
        auto s = std::make_shared<A::POMDP::PERSEUS>(6, 2, 0.0); double lo = p.R.minCoeff();
        return wrapObj(s, [m, lo](A::POMDP::PERSEUS & x, int) { auto [var, vf] = x(*m, lo); Out o; o.push_back(var); flat(o, vf); return o; }, m); }, true});
    v.push_back({"BeliefGenerator", false, 2,   // not seed-sensitive: on some models only corner / reachable beliefs are produced
         [](uint64_t ps) {
        using M = A::POMDP::Model<A::MDP::Model>; auto p = pomdpOf(ps); if (p.S < 3) p = pomdpOf(ps, 1); auto m = std::make_shared<M>(toDense(p));
        auto s = std::make_shared<A::POMDP::BeliefGenerator<M>>(*m); size_t S = p.S;
        return wrapObj(s, [S](A::POMDP::BeliefGenerator<M> & x, int k) { auto bl = x(S + 6 + (size_t)k); Out o; o.push_back((double)bl.size()); for (auto & b : bl) flat(o, b); return o; }, m, true); }});
    v.push_back({"MaximumLikelihoodModel::sampleSR", false, 3, [](uint64_t ps) {
        auto t = mdpOf(ps); auto e = std::make_shared<A::MDP::Experience>(t.S, t.A);
        { Rng r(ps ^ 77); for (int i = 0; i < 60; ++i) e->record(r.below(t.S), r.below(t.A), r.below(t.S), dyadicReward(r)); }
        auto m = std::make_shared<A::MDP::MaximumLikelihoodModel<A::MDP::Experience>>(*e, 0.9, true);
        return wrapObj(m, [t](A::MDP::MaximumLikelihoodModel<A::MDP::Experience> & mm, int k) { Out o; size_t s = k % t.S; for (int i = 0; i < 8; ++i) { auto [s1, r] = mm.sampleSR(s, (i + k) % t.A); o.push_back((double)s1); o.push_back(r); s = s1; } return o; }, e); }});
    v.push_back({"ThompsonModel::sync", true, 2, [](uint64_t ps) {
        auto t = mdpOf(ps); auto e = std::make_shared<A::MDP::Experience>(t.S, t.A);
        { Rng r(ps ^ 77); for (int i = 0; i < 60; ++i) e->record(r.below(t.S), r.below(t.A), r.below(t.S), dyadicReward(r)); }
        auto m = std::make_shared<A::MDP::ThompsonModel<A::MDP::Experience>>(*e, 0.9);
        return wrapObj(m, [t](A::MDP::ThompsonModel<A::MDP::Experience> & mm, int) { mm.sync(); Out o; for (size_t a = 0; a < t.A; ++a) flat(o, A::Matrix2D(mm.getTransitionFunction(a))); flat(o, A::Matrix2D(mm.getRewardFunction())); return o; }, e); }});
    v.push_back({"Bandit::Model<bernoulli>", true, 3, [](uint64_t) {
        auto m = std::make_shared<A::Bandit::Model<std::bernoulli_distribution>>(std::make_tuple(0.5), std::make_tuple(0.25), std::make_tuple(0.75));
        return wrapObj(m, [](A::Bandit::Model<std::bernoulli_distribution> & mm, int k) { Out o; for (int i = 0; i < 48; ++i) o.push_back(mm.sampleR((i + k) % 3)); return o; }); }});
    v.push_back({"MiningBandit", true, 3, [](uint64_t) {
        auto m = std::make_shared<A::Factored::Bandit::MiningBandit>(A::Factored::Action{2, 2, 4}, std::vector<unsigned>{2, 3, 2}, std::vector<double>{0.5, 0.4, 0.6, 0.3, 0.5, 0.45});
        return wrapObj(m, [](A::Factored::Bandit::MiningBandit & mm, int k) { Out o; for (int i = 0; i < 12; ++i) { A::Factored::Action a{(size_t)((i + k) % 2), (size_t)(i % 2), (size_t)(i % 4)}; flat(o, mm.sampleR(a)); } return o; }); }});
    auto mkRules = [](uint64_t seed) {
        namespace FB = A::Factored::Bandit;
        Rng r(seed); size_t n = 3 + r.below(3); A::Factored::Action space(n);
        for (auto & d : space) d = 2 + r.below(2);
        std::vector<FB::QFunctionRule> rules;
        for (size_t i = 0; i + 1 < n; ++i) for (size_t x = 0; x < space[i]; ++x) for (size_t y = 0; y < space[i + 1]; ++y)
            rules.push_back({A::Factored::PartialAction{{i, i + 1}, {x, y}}, (double)r.below(3)});   // ties: the random start decides
        return std::make_pair(space, rules);
    };
    v.push_back({"LocalSearch(object)", false, 3, [mkRules](uint64_t ps) {
        namespace FB = A::Factored::Bandit; auto ls = std::make_shared<FB::LocalSearch>();
        auto [sp, rules] = mkRules(ps); auto g = std::make_shared<FB::LocalSearch::Graph>(FB::MakeGraph<FB::LocalSearch>()(rules, sp)); FB::UpdateGraph<FB::LocalSearch>()(*g, rules, sp);
        return wrapObj(ls, [sp = sp, g](FB::LocalSearch & x, int) { auto [act, val] = x(sp, *g); Out o; o.push_back(val); for (auto a : act) o.push_back((double)a); return o; }, g); }});
    v.push_back({"ReusingIterativeLocalSearch(object)", false, 3, [mkRules](uint64_t ps) {
        namespace FB = A::Factored::Bandit; auto ls = std::make_shared<FB::ReusingIterativeLocalSearch>(0.3, 0.1, 6, true);
        auto [sp, rules] = mkRules(ps); auto g = std::make_shared<FB::ReusingIterativeLocalSearch::Graph>(FB::MakeGraph<FB::ReusingIterativeLocalSearch>()(rules, sp)); FB::UpdateGraph<FB::ReusingIterativeLocalSearch>()(*g, rules, sp);
        return wrapObj(ls, [sp = sp, g](FB::ReusingIterativeLocalSearch & x, int) { auto [act, val] = x(sp, *g); Out o; o.push_back(val); for (auto a : act) o.push_back((double)a); return o; }, g); }});
    return v;
}
static std::vector<Stepper> g_step;
static Out runSteps(Obj & o, int n) { Out all; for (int k = 0; k < n; ++k) { Out x = o.step(k); all.push_back((double)x.size()); all.insert(all.end(), x.begin(), x.end()); } return all; }

static std::vector<Subject> g_subj;
static std::vector<int> g_stepOf;   // subject index -> stepper index or -1

static bool g_alone = false;
static std::string g_self, g_seed, g_tier;

long verif::verif_ncases(const std::string & tier) {
    g_subj = subjects(); g_step = steppers();
    g_stepOf.assign(g_subj.size(), -1);
    for (size_t i = 0; i < g_step.size(); ++i) {
        const Stepper * sp = &g_step[i];
        g_subj.push_back({sp->name, false, [sp](uint64_t ps, int) { Obj o = sp->make(ps); return runSteps(o, sp->nsteps); }});
        g_stepOf.push_back((int)i);
    }
    return (long)g_subj.size() * (tier == "thorough" ? 60 : 8);
}

static void emit(const char * name, const char * scen, const Out & a, const Out & b, const char * op = "same") {
    Line l; l << "C16" << op << name << scen << "|"; l.nums(a); l.nums(b); l.emit();
    std::printf("#stat scenario:%s 1\n#stat outlen:%s 1\n", scen, a.size() <= 1 ? "le1" : a.size() < 16 ? "lt16" : a.size() < 128 ? "lt128" : "ge128");
}
static void cat(Out & a, const Out & b) { a.push_back((double)b.size()); a.insert(a.end(), b.begin(), b.end()); }

void verif::verif_case(Rng & rng, long idx, const std::string &) {
    const Subject & sj = g_subj[idx % g_subj.size()];
    // GapMin under ASan: some random S = 2 instances need more than ten minutes for a single iteration (thorough seeds 2, 3); its cost is not
    // this property's subject (C03 checks GapMin snapshot by snapshot), so it is a subject on the quick tier's rounds only and is never the
    // unrelated "prefix" call of another subject
    if (!std::strcmp(sj.name, "GapMin(budget)") && idx / (long)g_subj.size() >= 4) { std::printf("#stat gapmin_skipped_beyond_quick_rounds 1\n"); return; }
    uint64_t ps = rng.next(); unsigned root = (unsigned)rng.next();
    if (g_alone) {   // fresh-process mode: print only the result of the call under test
        A::Seeder::setRootSeed(root); Out a = sj.run(ps, 0);
        std::printf("#alone %zu", a.size()); for (double x : a) std::printf(" %s", X(x).c_str()); std::printf("\n"); std::fflush(stdout);
        return;
    }
    std::printf("#stat subject:%s 1\n", sj.name);
    // twice
    A::Seeder::setRootSeed(root); Out a = sj.run(ps, 0);
    A::Seeder::setRootSeed(root); Out b = sj.run(ps, 0);
    emit(sj.name, "twice", a, b);
    // prefix: unrelated calls (two other subjects on other problems, another root seed) first
    for (int k = 0; k < 2; ++k) {
        size_t oi = rng.below(g_subj.size()); if (!std::strcmp(g_subj[oi].name, "GapMin(budget)")) oi = 0;
        const Subject & other = g_subj[oi];
        A::Seeder::setRootSeed((unsigned)rng.next());
        try { other.run(rng.next(), 0); } catch (const std::exception &) {}
    }
    // always include the AMDP-like "same class, different parameters" prefix: rerun the subject itself on another problem
    A::Seeder::setRootSeed((unsigned)rng.next());
    try { sj.run(ps ^ 0x5555, 0); } catch (const std::exception &) {}
    A::Seeder::setRootSeed(root); Out c = sj.run(ps, 0);
    emit(sj.name, "prefix", a, c);
    if (sj.deterministic) {
        A::Seeder::setRootSeed(root); Out d = sj.run(ps, 1);
        emit(sj.name, "reuse", a, d);
        A::Seeder::setRootSeed(root); Out d2 = sj.run(ps, 2);
        emit(sj.name, "reuse_same_problem", a, d2);
        A::Seeder::setRootSeed(root); Out d3 = sj.run(ps, 3);
        emit(sj.name, "reuse_same_size_other_problem", a, d3);
        if (!std::strncmp(sj.name, "Pruner", 6) || !std::strncmp(sj.name, "WitnessLP", 9)) {
            // the LP wrapper keeps a row scale chosen from the first row it sees (magnitudes above 2^16): reset() must forget it
            A::Seeder::setRootSeed(root); Out d4 = sj.run(ps, 4);
            emit(sj.name, "reuse_after_other_magnitude", a, d4);
        }
    }
    if (g_stepOf[idx % g_subj.size()] >= 0) {
        const Stepper & st = g_step[g_stepOf[idx % g_subj.size()]];
        const uint64_t ps2 = ps ^ 0x2222;
        // interleave: two objects of the class, constructed in the same order; calls in sequence vs interleaved
        Out seq, itl;
        if (!st.drawsSeeds) {
        { A::Seeder::setRootSeed(root); Obj x = st.make(ps), y = st.make(ps2); Out ox, oy;
          for (int k = 0; k < st.nsteps; ++k) cat(ox, x.step(k));
          for (int k = 0; k < st.nsteps; ++k) cat(oy, y.step(k));
          seq = ox; seq.insert(seq.end(), oy.begin(), oy.end()); }
        { A::Seeder::setRootSeed(root); Obj x = st.make(ps), y = st.make(ps2); Out ox, oy;
          for (int k = 0; k < st.nsteps; ++k) { cat(ox, x.step(k)); cat(oy, y.step(k)); }
          itl = ox; itl.insert(itl.end(), oy.begin(), oy.end()); }
        emit(sj.name, "interleave", seq, itl);
        // an unrelated object constructed BEFORE the reseed and used in between must not matter either
        { Obj z = st.make(ps2); A::Seeder::setRootSeed(root); Obj x = st.make(ps); Out ox;
          for (int k = 0; k < st.nsteps; ++k) { ox.push_back((double)0); Out t = x.step(k); ox.back() = (double)t.size(); ox.insert(ox.end(), t.begin(), t.end()); z.step(k); }
          emit(sj.name, "older_object_in_between", a, ox); }
        }
        // copy: the copy continues exactly like the original (engine state is copied), and copying does not disturb the original
        { A::Seeder::setRootSeed(root); Obj x = st.make(ps);
          // (not for objects whose calls draw a seed from the global Seeder — PBVI/PERSEUS build a BeliefGenerator per call —: the original's and
          //  the copy's calls alternate here, so each gets another seed; thorough seed 1 case 2119 showed exactly that and nothing else)
          if (x.clone && !st.drawsSeeds) {
              Out ox, oc; cat(ox, x.step(0)); Obj c = x.clone(); oc = ox;
              for (int k = 1; k < st.nsteps; ++k) { cat(ox, x.step(k)); cat(oc, c.step(k)); }
              emit(sj.name, "copy_replays", ox, oc);
              emit(sj.name, "copy_leaves_original", a, ox);
              std::printf("#stat copyable:%s 1\n", sj.name);
          } }
        // another root seed: a stream long enough not to coincide by chance must differ
        if (st.seedSensitive) {
            A::Seeder::setRootSeed(root ^ 0x9E3779B9u); Out r2 = sj.run(ps, 0);
            emit(sj.name, "root_seed", a, r2, "differ");
            // two objects created one after the other must not share a stream either
            A::Seeder::setRootSeed(root); Obj x = st.make(ps), y = st.make(ps); Out ox = runSteps(x, st.nsteps), oy = runSteps(y, st.nsteps);
            emit(sj.name, "sibling_objects", ox, oy, "differ");
        }
    }
    // fresh process: the same call, alone, in a new process (nothing ran before it) vs here after everything above
    {
        std::string cmd = "timeout 100 " + g_self + " " + g_seed + " " + g_tier + " --only " + std::to_string(idx) + " --alone 2>/dev/null";
        FILE * f = popen(cmd.c_str(), "r");
        std::string tokens; bool found = false;
        if (f) {
            char * lineptr = nullptr; size_t cap = 0; ssize_t len;
            while ((len = getline(&lineptr, &cap, f)) > 0) { std::string acc(lineptr, (size_t)len); if (acc.rfind("#alone ", 0) == 0) { tokens = acc.substr(7); found = true; } }
            free(lineptr); pclose(f);
        }
        if (found) {
            while (!tokens.empty() && (tokens.back() == '\n' || tokens.back() == ' ')) tokens.pop_back();
            A::Seeder::setRootSeed(root); Out e = sj.run(ps, 0);
            Line l; l << "C16" << "same" << sj.name << "fresh_process" << "|"; l.tok(tokens); l.nums(e); l.emit();
        } else std::printf("#stat fresh_process_unavailable 1\n");
    }
}

int main(int argc, char ** argv) {
    setvbuf(stdout, nullptr, _IOLBF, 0);
    g_self = argv[0]; g_seed = argc > 1 ? argv[1] : "0"; g_tier = argc > 2 ? argv[2] : "quick";
    for (int i = 1; i < argc; ++i) if (!std::strcmp(argv[i], "--alone")) g_alone = true;
    return verif::verif_main(argc, argv);
}
