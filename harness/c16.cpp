// C16: reproducibility / independence of unrelated history — bitwise differential runs.
// Scenarios: twice (same root seed, same program), prefix (unrelated calls first),
// reuse (solver object used on a differently-sized problem first; deterministic solvers only).
#include "common/verif.hpp"
#include "common/gen.hpp"
#include <AIToolbox/Seeder.hpp>
#include <AIToolbox/MDP/Algorithms/ValueIteration.hpp>
#include <AIToolbox/MDP/Algorithms/PolicyIteration.hpp>
#include <AIToolbox/MDP/Algorithms/Utils/PolicyEvaluation.hpp>
#include <AIToolbox/MDP/Algorithms/QLearning.hpp>
#include <AIToolbox/MDP/Algorithms/MCTS.hpp>
#include <AIToolbox/MDP/Algorithms/PrioritizedSweeping.hpp>
#include <AIToolbox/MDP/Policies/QGreedyPolicy.hpp>
#include <AIToolbox/MDP/Policies/EpsilonPolicy.hpp>
#include <AIToolbox/MDP/Policies/QSoftmaxPolicy.hpp>
#include <AIToolbox/POMDP/Algorithms/IncrementalPruning.hpp>
#include <AIToolbox/POMDP/Algorithms/Witness.hpp>
#include <AIToolbox/POMDP/Algorithms/LinearSupport.hpp>
#include <AIToolbox/POMDP/Algorithms/PBVI.hpp>
#include <AIToolbox/POMDP/Algorithms/PERSEUS.hpp>
#include <AIToolbox/POMDP/Algorithms/AMDP.hpp>
#include <AIToolbox/POMDP/Algorithms/FastInformedBound.hpp>
#include <AIToolbox/POMDP/Algorithms/QMDP.hpp>
#include <AIToolbox/POMDP/Algorithms/BlindStrategies.hpp>
#include <AIToolbox/POMDP/Algorithms/POMCP.hpp>
#include <AIToolbox/POMDP/Algorithms/RTBSS.hpp>
#include <AIToolbox/POMDP/Algorithms/SARSOP.hpp>
#include <AIToolbox/POMDP/Environments/ChengD35.hpp>
#include <AIToolbox/Factored/Bandit/Algorithms/Utils/VariableElimination.hpp>
#include <AIToolbox/Factored/Bandit/Algorithms/Utils/GraphUtils.hpp>
#include <AIToolbox/Factored/Bandit/Algorithms/Utils/MaxPlus.hpp>
#include <AIToolbox/Factored/Bandit/Algorithms/Utils/LocalSearch.hpp>
#include <AIToolbox/Factored/Bandit/Algorithms/Utils/ReusingIterativeLocalSearch.hpp>
#include <AIToolbox/Factored/Bandit/Algorithms/Utils/MultiObjectiveVariableElimination.hpp>
#include <AIToolbox/POMDP/Algorithms/GapMin.hpp>
#include <AIToolbox/Verif/Hooks.hpp>
#include <AIToolbox/MDP/Algorithms/QLearning.hpp>
#include <AIToolbox/MDP/Algorithms/SARSAL.hpp>
#include <AIToolbox/MDP/Algorithms/PrioritizedSweeping.hpp>
#include <AIToolbox/Utils/Probability.hpp>
#include <AIToolbox/MDP/ThompsonModel.hpp>
#include <AIToolbox/MDP/Experience.hpp>
#include <AIToolbox/Seeder.hpp>

using namespace verif;
namespace A = AIToolbox;
using Out = std::vector<double>;

static void flat(Out & o, const A::Vector & v) { for (long i = 0; i < v.size(); ++i) o.push_back(v[i]); }
static void flat(Out & o, const A::Matrix2D & m) { for (long i = 0; i < m.rows(); ++i) for (long j = 0; j < m.cols(); ++j) o.push_back(m(i, j)); }
static void flat(Out & o, const A::POMDP::VList & l) {
    o.push_back((double)l.size());
    for (auto & e : l) { flat(o, e.values); o.push_back((double)e.action); for (auto x : e.observations) o.push_back((double)x); }
}
static void flat(Out & o, const A::POMDP::ValueFunction & vf) { o.push_back((double)vf.size()); for (auto & l : vf) flat(o, l); }

// problem generators (pure functions of the problem seed)
static MdpTables mdpOf(uint64_t ps, int shrink = 0) { Rng r(ps); size_t S = 2 + r.below(4) + shrink, Ac = 1 + r.below(3) + shrink; return randomMdp(r, S, Ac); }
static PomdpTables pomdpOf(uint64_t ps, int shrink = 0) { Rng r(ps); size_t S = 2 + r.below(2) + shrink, Ac = 1 + r.below(2) + shrink, O = 1 + r.below(2) + shrink; return randomPomdp(r, S, Ac, O); }

struct Subject { const char * name; bool deterministic; std::function<Out(uint64_t, int)> run; };

static std::vector<Subject> subjects() {
    std::vector<Subject> v;
    v.push_back({"ValueIteration", true, [](uint64_t ps, int mode) {
        A::MDP::ValueIteration vi(6, 0.0);
        if (mode == 1) { auto m0 = toDense(mdpOf(ps ^ 0xABCDEF, 1)); vi(m0); }
        auto m = toDense(mdpOf(ps)); if (mode == 2) vi(m); auto [var, vf, q] = vi(m);
        Out o; o.push_back(var); flat(o, vf.values); for (auto a : vf.actions) o.push_back((double)a); flat(o, q); return o; }});
    v.push_back({"ValueIteration(warm_start)", true, [](uint64_t ps, int mode) {
        // a configured start value function of the right size: every call on this object must start from it
        auto t = mdpOf(ps); auto m = toDense(t);
        A::MDP::ValueFunction start{A::MDP::Values(t.S), A::MDP::Actions(t.S, 0)};
        { Rng r(ps ^ 31337); for (size_t s = 0; s < t.S; ++s) start.values[s] = dyadicReward(r); }
        A::MDP::ValueIteration vi(5, (ps & 2) ? 0.0 : 0.01, start);
        if (mode == 1) { auto m0 = toDense(mdpOf(ps ^ 0xABCDEF, 1)); vi(m0); }
        if (mode == 2) { vi(m); }
        auto [var, vf, q] = vi(m);
        Out o; o.push_back(var); flat(o, vf.values); for (auto a : vf.actions) o.push_back((double)a); flat(o, q);
        // the configured parameter is part of the object's observable state
        const auto & kept = vi.getValueFunction(); o.push_back((double)kept.values.size()); flat(o, kept.values);
        return o; }});
    v.push_back({"PolicyIteration", true, [](uint64_t ps, int mode) {
        A::MDP::PolicyIteration pi(50, 1e-6);
        if (mode == 1) { auto m0 = toDense(mdpOf(ps ^ 0xABCDEF, 1)); pi(m0); }
        auto m = toDense(mdpOf(ps)); if (mode == 2) pi(m); auto q = pi(m); Out o; flat(o, q); return o; }});
    v.push_back({"IncrementalPruning", true, [](uint64_t ps, int mode) {
        A::POMDP::IncrementalPruning s(2, 0.0);
        if (mode == 1) { auto m0 = toDense(pomdpOf(ps ^ 0xABCDEF, 1)); s(m0); }
        auto m = toDense(pomdpOf(ps)); if (mode == 2) s(m); auto [var, vf] = s(m); Out o; o.push_back(var); flat(o, vf); return o; }});
    v.push_back({"Witness", true, [](uint64_t ps, int mode) {
        A::POMDP::Witness s(2, 0.0);
        if (mode == 1) { auto m0 = toDense(pomdpOf(ps ^ 0xABCDEF, 1)); s(m0); }
        auto m = toDense(pomdpOf(ps)); if (mode == 2) s(m); auto [var, vf] = s(m); Out o; o.push_back(var); flat(o, vf); return o; }});
    v.push_back({"LinearSupport", true, [](uint64_t ps, int mode) {
        A::POMDP::LinearSupport s(2, 0.0);
        if (mode == 1) { auto m0 = toDense(pomdpOf(ps ^ 0xABCDEF, 1)); s(m0); }
        auto m = toDense(pomdpOf(ps)); if (mode == 2) s(m); auto [var, vf] = s(m); Out o; o.push_back(var); flat(o, vf); return o; }});
    v.push_back({"FastInformedBound", true, [](uint64_t ps, int mode) {
        A::POMDP::FastInformedBound s(20, 1e-6);
        if (mode == 1) { auto m0 = toDense(pomdpOf(ps ^ 0xABCDEF, 1)); s(m0); }
        auto m = toDense(pomdpOf(ps)); if (mode == 2) s(m); auto [var, q] = s(m); Out o; o.push_back(var); flat(o, q); return o; }});
    v.push_back({"QMDP", true, [](uint64_t ps, int mode) {
        A::POMDP::QMDP s(20, 1e-6);
        if (mode == 1) { auto m0 = toDense(pomdpOf(ps ^ 0xABCDEF, 1)); s(m0); }
        auto m = toDense(pomdpOf(ps)); if (mode == 2) s(m); auto [var, vf, q] = s(m); Out o; o.push_back(var); flat(o, vf); flat(o, q); return o; }});
    v.push_back({"BlindStrategies", true, [](uint64_t ps, int mode) {
        A::POMDP::BlindStrategies s(20, 1e-6);
        if (mode == 1) { auto m0 = toDense(pomdpOf(ps ^ 0xABCDEF, 1)); s(m0, true); }
        auto m = toDense(pomdpOf(ps)); if (mode == 2) s(m, (ps & 1) != 0); auto [var, vl] = s(m, (ps & 1) != 0); Out o; o.push_back(var); flat(o, vl); return o; }});
    v.push_back({"PBVI", false, [](uint64_t ps, int) {
        A::POMDP::PBVI s(6, 2, 0.0);
        auto m = toDense(pomdpOf(ps)); auto [var, vf] = s(m); Out o; o.push_back(var); flat(o, vf); return o; }});
    v.push_back({"PERSEUS", false, [](uint64_t ps, int) {
        A::POMDP::PERSEUS s(6, 3, 0.0);
        auto p = pomdpOf(ps); auto m = toDense(p); auto [var, vf] = s(m, p.R.minCoeff()); Out o; o.push_back(var); flat(o, vf); return o; }});
    v.push_back({"AMDP", false, [](uint64_t ps, int) {
        Rng r(ps ^ 77); A::POMDP::AMDP s(20 + r.below(20), 2 + r.below(4));
        auto p = pomdpOf(ps); auto m = toDense(p);
        auto [mdp, disc] = s.discretizeDense(m);
        Out o; o.push_back((double)mdp.getS());
        for (size_t a = 0; a < mdp.getA(); ++a) flat(o, mdp.getTransitionFunction(a));
        flat(o, mdp.getRewardFunction());
        // the discretizer itself is part of the result: evaluate it on fixed beliefs
        Rng rb(ps ^ 99); for (int i = 0; i < 8; ++i) { auto b = dyadicBelief(rb, p.S); o.push_back((double)disc(b)); }
        return o; }});
    v.push_back({"POMCP", false, [](uint64_t ps, int) {
        auto p = pomdpOf(ps); auto m = toDense(p);
        A::POMDP::POMCP<decltype(m)> s(m, 30, 60, 2.0);
        Rng rb(ps ^ 5); auto b = dyadicBelief(rb, p.S);
        Out o; o.push_back((double)s.sampleAction(b, 3)); o.push_back((double)s.sampleAction(b, 2)); return o; }});
    v.push_back({"MCTS", false, [](uint64_t ps, int) {
        auto t = mdpOf(ps); auto m = toDense(t);
        A::MDP::MCTS<decltype(m)> s(m, 60, 2.0);
        Out o; o.push_back((double)s.sampleAction(0, 3)); o.push_back((double)s.sampleAction(t.S - 1, 2)); return o; }});
    v.push_back({"RTBSS", false, [](uint64_t ps, int) {
        auto p = pomdpOf(ps); auto m = toDense(p);
        A::POMDP::RTBSS<decltype(m)> s(m, std::max(0.0, p.R.maxCoeff()));
        Rng rb(ps ^ 5); auto b = dyadicBelief(rb, p.S);
        auto [a, val] = s.sampleAction(b, 2); Out o; o.push_back((double)a); o.push_back(val); return o; }});
    v.push_back({"ModelSampling", false, [](uint64_t ps, int) {
        auto p = pomdpOf(ps); auto m = toDense(p);
        Out o; size_t s = 0;
        for (int i = 0; i < 12; ++i) { auto [s1, ob, r] = m.sampleSOR(s, i % p.A); o.push_back((double)s1); o.push_back((double)ob); o.push_back(r); s = s1; }
        return o; }});
    v.push_back({"EpsilonSoftmaxPolicies", false, [](uint64_t ps, int) {
        auto t = mdpOf(ps); auto m = toDense(t);
        A::MDP::ValueIteration vi(4, 0.0); auto [var, vf, q] = vi(m);
        A::MDP::QGreedyPolicy g(q); A::MDP::EpsilonPolicy e(g, 0.5); A::MDP::QSoftmaxPolicy sm(q, 1.0);
        Out o; for (int i = 0; i < 10; ++i) { o.push_back((double)e.sampleAction(i % t.S)); o.push_back((double)sm.sampleAction(i % t.S)); o.push_back((double)g.sampleAction(i % t.S)); }
        return o; }});
    v.push_back({"VariableElimination", true, [](uint64_t ps, int mode) {
        namespace FB = A::Factored::Bandit;
        FB::VariableElimination ve;
        auto mk = [](uint64_t seed, int extra) {
            Rng r(seed); size_t n = 2 + r.below(3) + extra; A::Factored::Action space(n);
            for (auto & d : space) d = 1 + r.below(3);
            std::vector<FB::QFunctionRule> rules;
            size_t nr = 2 + r.below(5);
            for (size_t i = 0; i < nr; ++i) {
                A::Factored::PartialAction pa;
                for (size_t k = 0; k < n; ++k) if (r.coin()) { pa.first.push_back(k); pa.second.push_back(r.below(space[k])); }
                if (pa.first.empty()) { pa.first.push_back(0); pa.second.push_back(r.below(space[0])); }
                rules.push_back({pa, (double)r.range(-16, 16) / 4.0});
            }
            return std::make_pair(space, rules);
        };
        if (mode == 1) { auto [sp0, r0] = mk(ps ^ 0xABCDEF, 1); auto g0 = FB::MakeGraph<FB::VariableElimination>()(r0, sp0); FB::UpdateGraph<FB::VariableElimination>()(g0, r0, sp0); ve(sp0, g0); }
        auto [sp, rules] = mk(ps, 0); if (mode == 2) { auto g2 = FB::MakeGraph<FB::VariableElimination>()(rules, sp); FB::UpdateGraph<FB::VariableElimination>()(g2, rules, sp); ve(sp, g2); }
        auto g = FB::MakeGraph<FB::VariableElimination>()(rules, sp); FB::UpdateGraph<FB::VariableElimination>()(g, rules, sp); auto [act, val] = ve(sp, g);
        Out o; o.push_back(val); for (auto a : act) o.push_back((double)a); return o; }});
    // --- factored maximisers (approximate ones are seeded from the Seeder at construction)
    auto mkRules = [](uint64_t seed, int extra) {
        namespace FB = A::Factored::Bandit;
        Rng r(seed); size_t n = 2 + r.below(3) + extra; A::Factored::Action space(n);
        for (auto & d : space) d = 1 + r.below(3);
        std::vector<FB::QFunctionRule> rules;
        size_t nr = 2 + r.below(5);
        for (size_t i = 0; i < nr; ++i) {
            A::Factored::PartialAction pa;
            for (size_t k = 0; k < n; ++k) if (r.coin()) { pa.first.push_back(k); pa.second.push_back(r.below(space[k])); }
            if (pa.first.empty()) { pa.first.push_back(0); pa.second.push_back(r.below(space[0])); }
            rules.push_back({pa, (double)r.range(0, 16) / 4.0});
        }
        return std::make_pair(space, rules);
    };
    v.push_back({"MaxPlus", false, [mkRules](uint64_t ps, int) {
        namespace FB = A::Factored::Bandit; FB::MaxPlus mp(5);
        auto [sp, rules] = mkRules(ps, 0); auto g = FB::MakeGraph<FB::MaxPlus>()(rules, sp); FB::UpdateGraph<FB::MaxPlus>()(g, rules, sp);
        auto [act, val] = mp(sp, g); Out o; o.push_back(val); for (auto a : act) o.push_back((double)a); return o; }});
    v.push_back({"LocalSearch", false, [mkRules](uint64_t ps, int) {
        namespace FB = A::Factored::Bandit; FB::LocalSearch ls;
        auto [sp, rules] = mkRules(ps, 0); auto g = FB::MakeGraph<FB::LocalSearch>()(rules, sp); FB::UpdateGraph<FB::LocalSearch>()(g, rules, sp);
        auto [act, val] = ls(sp, g); Out o; o.push_back(val); for (auto a : act) o.push_back((double)a); return o; }});
    v.push_back({"ReusingIterativeLocalSearch", false, [mkRules](uint64_t ps, int) {
        namespace FB = A::Factored::Bandit; FB::ReusingIterativeLocalSearch rils(0.3, 0.1, 6, true);
        auto [sp, rules] = mkRules(ps, 0); auto g = FB::MakeGraph<FB::ReusingIterativeLocalSearch>()(rules, sp); FB::UpdateGraph<FB::ReusingIterativeLocalSearch>()(g, rules, sp);
        auto [act, val] = rils(sp, g); auto [act2, val2] = rils(sp, g);
        Out o; o.push_back(val); for (auto a : act) o.push_back((double)a); o.push_back(val2); for (auto a : act2) o.push_back((double)a); return o; }});
    // --- anytime POMDP solvers through the iteration-budget hook (deterministic)
    v.push_back({"SARSOP(budget)", true, [](uint64_t ps, int mode) {
        A::POMDP::SARSOP s(0.01, 0.1);
        A::Verif::anytimeObserver = [](const A::Verif::AnytimeSnapshot & sn) { return sn.iteration < 6; };
        auto run = [&](uint64_t seed, int extra) { auto p = pomdpOf(seed, extra); auto m = toDense(p); A::Vector b = A::Vector::Constant(p.S, 1.0 / p.S); return s(m, b); };
        if (mode == 1) run(ps ^ 0xABCDEF, 1);
        if (mode == 2) run(ps, 0);
        auto [lb, ub, vl, q] = run(ps, 0);
        A::Verif::anytimeObserver = nullptr;
        Out o; o.push_back(lb); o.push_back(ub); flat(o, vl); flat(o, q); return o; }});
    v.push_back({"GapMin(budget)", true, [](uint64_t ps, int mode) {
        A::POMDP::GapMin s(0.01, 3);
        A::Verif::anytimeObserver = [](const A::Verif::AnytimeSnapshot & sn) { return sn.iteration < 3; };
        auto run = [&](uint64_t seed, int extra) { auto p = pomdpOf(seed, extra); auto m = toDense(p); A::Vector b = A::Vector::Constant(p.S, 1.0 / p.S); return s(m, b); };
        if (mode == 1) run(ps ^ 0xABCDEF, 1);
        if (mode == 2) run(ps, 0);
        auto [lb, ub, vl, q] = run(ps, 0);
        A::Verif::anytimeObserver = nullptr;
        Out o; o.push_back(lb); o.push_back(ub); flat(o, vl); flat(o, q); return o; }});
    // --- learners on a fixed experience stream (deterministic functions of the stream)
    // random-variate helpers and the models built on them: every variate must come from the engine handed in (seeded per
    // object from Seeder), never from a distribution object shared across calls (libstdc++'s gamma/normal distributions cache a deviate)
    v.push_back({"DirichletBetaSampling", false, [](uint64_t ps, int) {
        Rng r(ps); Out o;
        A::RandomEngine e1((unsigned)A::Seeder::getSeed());
        for (int k = 0; k < 3; ++k) {
            const size_t n = 2 + r.below(4);
            A::Vector params(n); for (size_t i = 0; i < n; ++i) params[i] = 0.5 + 0.25 * (double)r.below(12);
            auto d = A::sampleDirichletDistribution(params, e1); flat(o, d);
            o.push_back(A::sampleBetaDistribution(0.5 + (double)r.below(5), 0.5 + (double)r.below(5), e1));
        }
        return o; }});
    v.push_back({"ThompsonModel", false, [](uint64_t ps, int) {
        auto t = mdpOf(ps); auto m = toDense(t);
        A::MDP::Experience exp(t.S, t.A);
        Rng r(ps ^ 77); size_t s = 0;
        for (int i = 0; i < 40; ++i) { size_t a = r.below(t.A); auto [s1, rew] = m.sampleSR(s, a); exp.record(s, a, s1, rew); s = s1; }
        A::MDP::ThompsonModel<A::MDP::Experience> tm(exp, 0.9);
        tm.sync();
        Out o; for (size_t a = 0; a < t.A; ++a) flat(o, A::Matrix2D(tm.getTransitionFunction(a)));
        tm.sync(0, 0); for (size_t s1 = 0; s1 < t.S; ++s1) o.push_back(tm.getTransitionProbability(0, 0, s1));
        return o; }});
    v.push_back({"QLearning+SARSAL+PrioritizedSweeping", true, [](uint64_t ps, int mode) {
        auto t = mdpOf(ps); auto m = toDense(t);
        A::MDP::QLearning ql(t.S, t.A, t.discount, 0.5); A::MDP::SARSAL sl(t.S, t.A, t.discount, 0.5, 0.5, 0.001);
        A::MDP::PrioritizedSweeping<decltype(m)> psw(m, 0.001, 20);
        auto feed = [&](uint64_t seed, int n) { Rng r(seed); size_t s = 0, a = 0; for (int i = 0; i < n; ++i) {
            size_t s1 = r.below(t.S), a1 = r.below(t.A); double rew = dyadicReward(r);
            ql.stepUpdateQ(s, a, s1, rew); sl.stepUpdateQ(s, a, s1, a1, rew); psw.stepUpdateQ(s, a); psw.batchUpdateQ(); s = s1; a = a1; } };
        (void)mode; feed(ps ^ 17, 40);
        Out o; flat(o, ql.getQFunction()); flat(o, sl.getQFunction()); flat(o, psw.getQFunction()); return o; }});
    // SARSOP is not a subject here: under ASan it does not finish within the per-case budget (and does not converge at all on
    // several small problems, see DESIGN §12); its anytime loop is exercised by C03 through the iteration-budget hook.
    return v;
}

static std::vector<Subject> g_subj;
static bool g_alone = false;
static std::string g_self, g_seed, g_tier;

long verif::verif_ncases(const std::string & tier) {
    g_subj = subjects();
    return (long)g_subj.size() * (tier == "thorough" ? 40 : 4);
}

static void emit(const char * name, const char * scen, const Out & a, const Out & b) {
    Line l; l << "C16" << "same" << name << scen << "|"; l.nums(a); l.nums(b); l.emit();
}

void verif::verif_case(Rng & rng, long idx, const std::string &) {
    const Subject & sj = g_subj[idx % g_subj.size()];
    uint64_t ps = rng.next(); unsigned root = (unsigned)rng.next();
    if (g_alone) {   // fresh-process mode: print only the result of the call under test
        A::Seeder::setRootSeed(root); Out a = sj.run(ps, 0);
        std::printf("#alone %zu", a.size()); for (double x : a) std::printf(" %s", X(x).c_str()); std::printf("\n"); std::fflush(stdout);
        return;
    }
    std::printf("#stat subject:%s 1\n", sj.name);
    // twice
    A::Seeder::setRootSeed(root); Out a = sj.run(ps, 0);
    A::Seeder::setRootSeed(root); Out b = sj.run(ps, 0);
    emit(sj.name, "twice", a, b);
    // prefix: unrelated calls (two other subjects on other problems, another root seed) first
    for (int k = 0; k < 2; ++k) {
        const Subject & other = g_subj[rng.below(g_subj.size())];
        A::Seeder::setRootSeed((unsigned)rng.next());
        try { other.run(rng.next(), 0); } catch (const std::exception &) {}
    }
    // always include the AMDP-like "same class, different parameters" prefix: rerun the subject itself on another problem
    A::Seeder::setRootSeed((unsigned)rng.next());
    try { sj.run(ps ^ 0x5555, 0); } catch (const std::exception &) {}
    A::Seeder::setRootSeed(root); Out c = sj.run(ps, 0);
    emit(sj.name, "prefix", a, c);
    if (sj.deterministic) {
        A::Seeder::setRootSeed(root); Out d = sj.run(ps, 1);
        emit(sj.name, "reuse", a, d);
        A::Seeder::setRootSeed(root); Out d2 = sj.run(ps, 2);
        emit(sj.name, "reuse_same_problem", a, d2);
    }
    // fresh process: the same call, alone, in a new process (nothing ran before it) vs here after everything above
    {
        std::string cmd = "timeout 100 " + g_self + " " + g_seed + " " + g_tier + " --only " + std::to_string(idx) + " --alone 2>/dev/null";
        FILE * f = popen(cmd.c_str(), "r");
        std::string tokens; bool found = false;
        if (f) {
            char * lineptr = nullptr; size_t cap = 0; ssize_t len;
            while ((len = getline(&lineptr, &cap, f)) > 0) { std::string acc(lineptr, (size_t)len); if (acc.rfind("#alone ", 0) == 0) { tokens = acc.substr(7); found = true; } }
            free(lineptr); pclose(f);
        }
        if (found) {
            while (!tokens.empty() && (tokens.back() == '\n' || tokens.back() == ' ')) tokens.pop_back();
            A::Seeder::setRootSeed(root); Out e = sj.run(ps, 0);
            Line l; l << "C16" << "same" << sj.name << "fresh_process" << "|"; l.tok(tokens); l.nums(e); l.emit();
        } else std::printf("#stat fresh_process_unavailable 1\n");
    }
}

int main(int argc, char ** argv) {
    g_self = argv[0]; g_seed = argc > 1 ? argv[1] : "0"; g_tier = argc > 2 ? argv[2] : "quick";
    for (int i = 1; i < argc; ++i) if (!std::strcmp(argv[i], "--alone")) g_alone = true;
    return verif::verif_main(argc, argv);
}
