// C17 correspondence harness: stream codecs of models, experiences and policies.
//   src/Utils/IO.cpp, src/MDP/IO.cpp, src/POMDP/IO.cpp, include/AIToolbox/POMDP/IO.hpp
// Fault enumeration.  For a random object x of every kind:
//   rt      : text = (os << x); a destination holding a *different* object loads text: signal, loaded object
//             (exact dump), bitwise comparison with x, decisions compared at corner + sampled beliefs (POMDP::Policy);
//   trunc   : EVERY strict byte prefix of text is loaded into a fresh copy of the destination: signal, whether the
//             destination is bit-identical to before, and the loaded object when the load succeeded;
//   xload   : the text is offered to destinations of six neighbouring shapes (semantically invalid input);
//   corrupt : every token × {deleted, duplicated, -1, 1e999, nan, abc, huge index(es), integer+1}: same observations.
// The driver re-runs the Lean readers/writers on exactly the same bytes and evaluates the property clauses on the
// implementation's outputs.
#include "common/verif.hpp"
#include <AIToolbox/MDP/IO.hpp>
#include <AIToolbox/POMDP/IO.hpp>
#include <AIToolbox/MDP/Experience.hpp>
#include <AIToolbox/MDP/SparseExperience.hpp>
#include <AIToolbox/MDP/Model.hpp>
#include <AIToolbox/MDP/SparseModel.hpp>
#include <AIToolbox/MDP/Policies/Policy.hpp>
#include <AIToolbox/MDP/Policies/QGreedyPolicy.hpp>
#include <AIToolbox/MDP/Policies/QSoftmaxPolicy.hpp>
#include <AIToolbox/MDP/Policies/EpsilonPolicy.hpp>
#include <AIToolbox/POMDP/Model.hpp>
#include <AIToolbox/POMDP/SparseModel.hpp>
#include <AIToolbox/POMDP/Policies/Policy.hpp>
#include <AIToolbox/POMDP/Utils.hpp>
#include <AIToolbox/POMDP/Algorithms/IncrementalPruning.hpp>
#include <AIToolbox/POMDP/Environments/TigerProblem.hpp>
#include <cctype>
#include <cfloat>
#include <limits>

using namespace verif;
namespace AI = AIToolbox;
namespace M = AIToolbox::MDP;
namespace PO = AIToolbox::POMDP;

struct Shape { size_t S, A, O; };

// ------------------------------------------------------------------ dumps (exact tokens, or raw bits for identity)
struct Dump {
    std::vector<std::string> t;
    bool bits;
    explicit Dump(bool b) : bits(b) {}
    void d(double x) {
        if (bits) { uint64_t u; std::memcpy(&u, &x, 8); char buf[32]; std::snprintf(buf, sizeof buf, "%016llx", (unsigned long long)u); t.push_back(buf); }
        else t.push_back(X(x));
    }
    void n(unsigned long long x) { t.push_back(std::to_string(x)); }
    std::string str() const { std::string s; for (auto & x : t) { if (!s.empty()) s += ' '; s += x; } return s; }
};

static void dumpMat(Dump & o, const AI::Matrix2D & m) { for (long i = 0; i < m.rows(); ++i) for (long j = 0; j < m.cols(); ++j) o.d(m(i, j)); }
static void dumpMat3(Dump & o, const AI::Matrix3D & m) { for (auto & x : m) dumpMat(o, x); }
static void dumpTab(Dump & o, const AI::Table2D & m) { for (long i = 0; i < m.rows(); ++i) for (long j = 0; j < m.cols(); ++j) o.n(m(i, j)); }
static void dumpSp(Dump & o, const AI::SparseMatrix2D & m) {
    size_t cnt = 0;
    for (int k = 0; k < m.outerSize(); ++k) for (AI::SparseMatrix2D::InnerIterator it(m, k); it; ++it) ++cnt;
    o.n(cnt);
    for (int k = 0; k < m.outerSize(); ++k) for (AI::SparseMatrix2D::InnerIterator it(m, k); it; ++it) { o.n(it.row()); o.n(it.col()); o.d(it.value()); }
}
static void dumpSpT(Dump & o, const AI::SparseTable2D & m) {
    size_t cnt = 0;
    for (int k = 0; k < m.outerSize(); ++k) for (AI::SparseTable2D::InnerIterator it(m, k); it; ++it) ++cnt;
    o.n(cnt);
    for (int k = 0; k < m.outerSize(); ++k) for (AI::SparseTable2D::InnerIterator it(m, k); it; ++it) { o.n(it.row()); o.n(it.col()); o.n(it.value()); }
}

static void dumpObj(Dump & o, const AI::Vector & v) { for (long i = 0; i < v.size(); ++i) o.d(v[i]); }
static void dumpObj(Dump & o, const M::Model & m) { o.d(m.getDiscount()); dumpMat3(o, m.getTransitionFunction()); dumpMat(o, m.getRewardFunction()); }
static void dumpObj(Dump & o, const M::SparseModel & m) { o.d(m.getDiscount()); for (auto & x : m.getTransitionFunction()) dumpSp(o, x); dumpSp(o, m.getRewardFunction()); }
template <class MM> static void dumpObj(Dump & o, const PO::Model<MM> & m) { dumpObj(o, static_cast<const MM &>(m)); dumpMat3(o, m.getObservationFunction()); }
template <class MM> static void dumpObj(Dump & o, const PO::SparseModel<MM> & m) { dumpObj(o, static_cast<const MM &>(m)); for (auto & x : m.getObservationFunction()) dumpSp(o, x); }
static void dumpObj(Dump & o, const M::Experience & e) {
    o.n(e.getTimesteps());
    for (auto & t : e.getVisitsTable()) dumpTab(o, t);
    for (size_t s = 0; s < e.getS(); ++s) for (size_t a = 0; a < e.getA(); ++a) o.n(e.getVisitsSum(s, a));
    dumpMat(o, e.getRewardMatrix()); dumpMat(o, e.getM2Matrix());
}
static void dumpObj(Dump & o, const M::SparseExperience & e) {
    o.n(e.getTimesteps());
    for (auto & t : e.getVisitsTable()) dumpSpT(o, t);
    for (size_t s = 0; s < e.getS(); ++s) for (size_t a = 0; a < e.getA(); ++a) o.n(e.getVisitsSum(s, a));
    dumpSp(o, e.getRewardMatrix()); dumpSp(o, e.getM2Matrix());
}
// decisions of an MDP policy at every state = its action probabilities, read through the public query
static void dumpObj(Dump & o, const M::Policy & p) {
    for (size_t s = 0; s < p.getS(); ++s) for (size_t a = 0; a < p.getA(); ++a) o.d(p.getActionProbability(s, a));
}
static void dumpObj(Dump & o, const PO::Policy & p) {
    const auto & vf = p.getValueFunction();
    o.n(vf.size());
    for (auto & vl : vf) {
        o.n(vl.size());
        for (auto & e : vl) {
            for (long i = 0; i < e.values.size(); ++i) o.d(e.values[i]);
            o.n(e.action); o.n(e.observations.size());
            for (auto x : e.observations) o.n(x);
        }
    }
}

// ------------------------------------------------------------------ value generators
static double randomFinite(Rng & r) {
    for (;;) { uint64_t u = r.next(); double d; std::memcpy(&d, &u, 8); if (std::isfinite(d) && !(d == 0.0 && std::signbit(d))) return d; }
}
static double genVal(Rng & r, int style) {
    if (style == 0) return (double)r.range(-32, 32) / 4.0;
    static const std::vector<double> ugly = {1.0 / 3.0, 0.1, -2.0 / 3.0, 1e-7, 123456.789, 1e22, -1e-300, 5e-324, DBL_MAX, -DBL_MAX, 2.5,
                                             1000002.5, 0.30000000000000004, 3.141592653589793, 0.333333, 1e-5, 99999.95, 0.1 + 0.2, 1e16, 9007199254740993.0, 4.35, 0.0};
    switch (r.below(4)) {
        case 0: return r.pick(ugly);
        case 1: return randomFinite(r);
        case 2: return (double)r.range(-1000000, 1000000) / 997.0;
        default: return std::ldexp((double)(r.next() >> 11) + 0.5, (int)r.range(-60, 10));
    }
}
// a probability row of length n
static std::vector<double> genRow(Rng & r, size_t n, int style) {
    std::vector<double> v(n, 0.0);
    if (style == 0 || r.coin(1, 3)) {
        unsigned total = 16;
        for (unsigned k = 0; k < total; ++k) v[r.coin(1, 2) ? r.below(n) : r.below((n + 1) / 2)] += 1.0 / 16.0;
    } else if (r.coin()) {
        std::vector<double> w(n); double sum = 0;
        for (auto & x : w) { x = r.coin(1, 4) ? 0.0 : (double)r.range(1, 97); sum += x; }
        if (sum == 0) { w[0] = 1; sum = 1; }
        for (size_t i = 0; i < n; ++i) v[i] = w[i] / sum;
    } else {
        for (auto & x : v) x = 1.0 / (double)n;
    }
    return v;
}
static AI::Matrix2D genProbMat(Rng & r, size_t rows, size_t cols, int style) {
    AI::Matrix2D m(rows, cols);
    for (size_t i = 0; i < rows; ++i) { auto v = genRow(r, cols, style); for (size_t j = 0; j < cols; ++j) m(i, j) = v[j]; }
    return m;
}
static AI::Matrix2D genMat(Rng & r, size_t rows, size_t cols, int style, bool holes) {
    AI::Matrix2D m(rows, cols);
    for (size_t i = 0; i < rows; ++i) for (size_t j = 0; j < cols; ++j) m(i, j) = (holes && r.coin()) ? 0.0 : genVal(r, style);
    return m;
}
// rewards fed to record(): finite and moderate, so that the running M2 stays finite (non-finite values are written as
// "inf"/"nan", which no reader accepts: outside the property's quantifier, see docs/C17.md)
static double genReward(Rng & r, int style) {
    double v = genVal(r, style);
    return std::fabs(v) > 1e100 ? 1.0 / 3.0 : v;
}
static double genDiscount(Rng & r, int style) {
    if (style == 0) { static const std::vector<double> d = {0.5, 0.75, 0.875, 1.0, 0.25}; return r.pick(d); }
    static const std::vector<double> d = {0.9, 0.95, 0.99, 1.0 / 3.0, 0.999999, 1e-9, 1.0, 0.7071067811865476};
    return r.pick(d);
}

// ------------------------------------------------------------------ object generators
static void fillMDP(Rng & r, M::Model & m, int style) {
    AI::Matrix3D T; for (size_t a = 0; a < m.getA(); ++a) T.push_back(genProbMat(r, m.getS(), m.getS(), style));
    m.setTransitionFunction(T); m.setRewardFunction(genMat(r, m.getS(), m.getA(), style, false)); m.setDiscount(genDiscount(r, style));
}
// explicitly stored zeros and uncompressed storage (entries inserted after the build): what coeffRef() / record() leave
// behind; the writers must count and emit exactly what the InnerIterator visits
static void addExplicitZeros(Rng & r, AI::SparseMatrix2D & m) {
    if (!r.coin(1, 3)) return;
    for (int k = 0; k < 3; ++k) m.coeffRef(r.below(m.rows()), r.below(m.cols())) += 0.0;
    if (r.coin()) m.makeCompressed();
    std::printf("#stat sparse_explicit_zeros:%s 1\n", m.isCompressed() ? "compressed" : "uncompressed");
}
static void fillMDP(Rng & r, M::SparseModel & m, int style) {
    AI::SparseMatrix3D T; for (size_t a = 0; a < m.getA(); ++a) { T.push_back(genProbMat(r, m.getS(), m.getS(), style).sparseView()); addExplicitZeros(r, T.back()); }
    m.setTransitionFunction(T);
    AI::SparseMatrix2D R = genMat(r, m.getS(), m.getA(), style, true).sparseView(); addExplicitZeros(r, R);
    m.setRewardFunction(R); m.setDiscount(genDiscount(r, style));
}
template <class T> struct Gen;
template <> struct Gen<M::Model> { static M::Model make(Rng & r, Shape sh, int st) { M::Model m(sh.S, sh.A); fillMDP(r, m, st); return m; } };
template <> struct Gen<M::SparseModel> { static M::SparseModel make(Rng & r, Shape sh, int st) { M::SparseModel m(sh.S, sh.A); fillMDP(r, m, st); return m; } };
template <class MM> struct Gen<PO::Model<MM>> {
    static PO::Model<MM> make(Rng & r, Shape sh, int st) {
        PO::Model<MM> m(sh.O, sh.S, sh.A); fillMDP(r, static_cast<MM &>(m), st);
        AI::Matrix3D Ob; for (size_t a = 0; a < sh.A; ++a) Ob.push_back(genProbMat(r, sh.S, sh.O, st));
        m.setObservationFunction(Ob); return m;
    }
};
template <class MM> struct Gen<PO::SparseModel<MM>> {
    static PO::SparseModel<MM> make(Rng & r, Shape sh, int st) {
        PO::SparseModel<MM> m(sh.O, sh.S, sh.A); fillMDP(r, static_cast<MM &>(m), st);
        AI::SparseMatrix3D Ob; for (size_t a = 0; a < sh.A; ++a) { Ob.push_back(genProbMat(r, sh.S, sh.O, st).sparseView()); addExplicitZeros(r, Ob.back()); }
        m.setObservationFunction(Ob); return m;
    }
};
static unsigned long genCount(Rng & r, int style) {
    if (style == 0 || r.coin(3, 4)) return r.below(50);
    static const std::vector<unsigned long> big = {1ul << 31, 1ul << 32, (1ul << 53) - 1, 1ul << 53, 4000000000ul, 1000000007ul};
    return r.pick(big);
}
template <> struct Gen<M::Experience> {
    static M::Experience make(Rng & r, Shape sh, int st) {
        M::Experience e(sh.S, sh.A);
        if (r.coin()) {
            size_t n = r.below(40);
            for (size_t i = 0; i < n; ++i) e.record(r.below(sh.S), r.below(sh.A), r.below(sh.S), genReward(r, st == 0 ? 0 : (r.coin() ? 0 : 1)));
        } else {
            AI::Table3D v; for (size_t a = 0; a < sh.A; ++a) { AI::Table2D t(sh.S, sh.S); for (size_t i = 0; i < sh.S; ++i) for (size_t j = 0; j < sh.S; ++j) t(i, j) = r.coin() ? 0 : genCount(r, st); v.push_back(t); }
            e.setVisitsTable(v); e.setRewardMatrix(genMat(r, sh.S, sh.A, st, false));
            AI::Matrix2D m2 = genMat(r, sh.S, sh.A, st, false).cwiseAbs(); e.setM2Matrix(m2);
        }
        return e;
    }
};
template <> struct Gen<M::SparseExperience> {
    static M::SparseExperience make(Rng & r, Shape sh, int st) {
        M::SparseExperience e(sh.S, sh.A);
        if (r.coin()) {
            size_t n = r.below(40);
            for (size_t i = 0; i < n; ++i) e.record(r.below(sh.S), r.below(sh.A), r.below(sh.S), genReward(r, st == 0 ? 0 : (r.coin() ? 0 : 1)));
        } else {
            AI::SparseTable3D v;
            for (size_t a = 0; a < sh.A; ++a) { AI::SparseTable2D t(sh.S, sh.S); for (size_t i = 0; i < sh.S; ++i) for (size_t j = 0; j < sh.S; ++j) if (r.coin(1, 3)) t.insert(i, j) = r.coin(1, 8) ? 0 : 1 + genCount(r, st); if (r.coin()) t.makeCompressed(); v.push_back(t); }
            e.setVisitsTable(v);
            AI::SparseMatrix2D R = genMat(r, sh.S, sh.A, st, true).sparseView(); addExplicitZeros(r, R); e.setRewardMatrix(R);
            AI::SparseMatrix2D m2 = genMat(r, sh.S, sh.A, st, true).cwiseAbs().sparseView(); addExplicitZeros(r, m2); e.setM2Matrix(m2);
        }
        return e;
    }
};
template <> struct Gen<AI::Vector> {
    static AI::Vector make(Rng & r, Shape sh, int st) { AI::Vector v(sh.S); for (size_t i = 0; i < sh.S; ++i) v[i] = genVal(r, st); return v; }
};
// MDP policies as the library's own policy classes produce them (`operator<<` takes any PolicyInterface and writes its
// getPolicy() matrix): greedy with ties (1/k entries), softmax (irrational probabilities), epsilon mixtures
template <> struct Gen<M::Policy> {
    static M::Policy make(Rng & r, Shape sh, int st) {
        if (st == 0 || r.coin()) return M::Policy(genProbMat(r, sh.S, sh.A, st));
        M::QFunction q(sh.S, sh.A);
        for (size_t s = 0; s < sh.S; ++s) for (size_t a = 0; a < sh.A; ++a) q(s, a) = (double)r.range(-3, 3) / 3.0;
        std::printf("#stat mpol_from_policy_class 1\n");
        switch (r.below(3)) {
            case 0: { M::QGreedyPolicy g(q); return M::Policy(g); }
            case 1: { M::QSoftmaxPolicy g(q, 0.7); return M::Policy(g); }
            default: { M::QGreedyPolicy g(q); M::EpsilonPolicy e(g, 0.3); return M::Policy(e); }
        }
    }
};
static PO::ValueFunction genVF(Rng & r, Shape sh, int st, size_t H) {
    auto vf = PO::makeValueFunction(sh.S);
    for (size_t h = 1; h <= H; ++h) {
        size_t n = 1 + r.below(4), prev = vf.back().size();
        PO::VList vl;
        for (size_t i = 0; i < n; ++i) {
            M::Values v(sh.S); for (size_t s = 0; s < sh.S; ++s) v[s] = genVal(r, st);
            PO::VObs ob(sh.O); for (auto & o : ob) o = r.below(prev);
            vl.push_back(PO::VEntry{v, (size_t)r.below(sh.A), ob});
        }
        vf.push_back(vl);
    }
    return vf;
}
template <> struct Gen<PO::Policy> {
    static PO::Policy make(Rng & r, Shape sh, int st) { return PO::Policy(sh.S, sh.A, sh.O, genVF(r, sh, st, r.below(4))); }
};

// ------------------------------------------------------------------ decisions (POMDP::Policy): corners + sampled beliefs, every horizon
template <class T> static long decisionDiffs(const T &, const T &, Rng &, Shape) { return 0; }
static long decisionDiffs(const PO::Policy & a, const PO::Policy & b, Rng & r, Shape sh) {
    if (a.getH() != b.getH()) return -1;
    long diffs = 0;
    std::vector<PO::Belief> bs;
    for (size_t s = 0; s < sh.S; ++s) { PO::Belief x(sh.S); x.setZero(); x[s] = 1.0; bs.push_back(x); }
    for (int k = 0; k < 12; ++k) { auto v = genRow(r, sh.S, k % 2); PO::Belief x(sh.S); for (size_t s = 0; s < sh.S; ++s) x[s] = v[s]; bs.push_back(x); }
    for (auto & x : bs) {
        for (unsigned h = 0; h <= a.getH(); ++h) if (a.sampleAction(x, h) != b.sampleAction(x, h)) ++diffs;
        if (a.sampleAction(x) != b.sampleAction(x)) ++diffs;
    }
    for (unsigned h = 0; h + 1 <= a.getH(); ++h)
        for (size_t id = 0; id < a.getValueFunction()[h + 1].size() && id < b.getValueFunction()[h + 1].size(); ++id)
            for (size_t o = 0; o < sh.O; ++o) if (a.sampleAction(id, o, h) != b.sampleAction(id, o, h)) ++diffs;
    return diffs;
}

// decisions of the ORIGINAL policy at the simplex corners, every horizon: (h, s, action, entry id).  At a corner the dot
// product is the vector's component itself, so the exact-arithmetic model must agree with findBestAtPoint bit for bit.
template <class T> static void emitDecisions(Line & l, const T &, Shape) { l << (size_t)0; }
static void emitDecisions(Line & l, const PO::Policy & p, Shape sh) {
    l << (size_t)((p.getH() + 1) * sh.S);
    for (unsigned h = 0; h <= p.getH(); ++h)
        for (size_t s = 0; s < sh.S; ++s) {
            PO::Belief b(sh.S); b.setZero(); b[s] = 1.0;
            auto [a, id] = p.sampleAction(b, h);
            l << (size_t)h << s << a << id;
        }
}

// ------------------------------------------------------------------ one load
static std::string hexOf(const std::string & s) {
    static const char * H = "0123456789abcdef";
    if (s.empty()) return "-";
    std::string o; o.reserve(2 * s.size());
    for (unsigned char c : s) { o += H[c >> 4]; o += H[c & 15]; }
    return o;
}
template <class T> static std::string bitsOf(const T & x) { Dump d(true); dumpObj(d, x); return d.str(); }
template <class T> static std::string exactOf(const T & x) { Dump d(false); dumpObj(d, x); return d.str(); }

// A fresh destination holding the same content.  MDP::Policy is rebuilt through its PolicyInterface constructor: its
// implicit copy constructor copies PolicyWrapper's *reference* to the source's matrix (see witnessCopiedPolicy).
template <class T> static T cloneOf(const T & x) { return T(x); }
template <> M::Policy cloneOf<M::Policy>(const M::Policy & x) { return M::Policy(static_cast<const M::PolicyInterface &>(x)); }

template <class T> static void writeTo(std::ostream & os, const T & x) { os << x; }
template <class T> static void readFrom(std::istream & is, T & x) { is >> x; }
// the bare building block of src/Utils/IO.cpp that no operator<< / operator>> uses
template <> void writeTo<AI::Vector>(std::ostream & os, const AI::Vector & x) { AI::write(os, x); }
template <> void readFrom<AI::Vector>(std::istream & is, AI::Vector & x) { AI::read(is, x); }

// returns 0 good / 1 failbit / 2 exception
template <class T> static int loadInto(T & dest, const std::string & text, std::string * remaining = nullptr) {
    std::istringstream is(text);
    try { readFrom(is, dest); } catch (const std::exception &) { return 2; }
    if (is.fail()) return 1;
    if (remaining) {   // what the reader left unread (the stream may be at eof already)
        is.clear();
        remaining->assign(std::istreambuf_iterator<char>(is), std::istreambuf_iterator<char>());
    }
    return 0;
}

// the same load on a stream that reports failures by exception (`is.exceptions(failbit | badbit)`): every
// `is.setstate(failbit)` / failed extraction inside the readers now leaves through a throw (other exits than in the
// plain mode).  1 = ios_base::failure, 2 = another exception, 0 = loaded
template <class T> static int loadIntoEx(T & dest, const std::string & text) {
    std::istringstream is(text);
    is.exceptions(std::ios::failbit | std::ios::badbit);
    try { readFrom(is, dest); } catch (const std::ios_base::failure &) { return 1; } catch (const std::exception &) { return 2; }
    return is.fail() ? 4 : 0;
}

static long g_good = 0, g_fail = 0, g_threw = 0, g_exmode = 0, g_nonfinite = 0;
static bool g_exceptionMode = true;
// outcome tokens: f/F = failbit with destination unchanged/changed, t/T likewise for an exception, g <dump> = loaded;
// X = the load on an exception-reporting stream ended differently (signal class or destination bits)
template <class T> static void outcome(Line & l, const T & d0, const std::string & d0bits, const std::string & text) {
    T dest = cloneOf(d0);
    std::string rem;
    int sig = loadInto(dest, text, &rem);
    if (g_exceptionMode) {
        T dest2 = cloneOf(d0);
        int sig2 = loadIntoEx(dest2, text);
        ++g_exmode;
        if (sig2 != sig || bitsOf(dest2) != bitsOf(dest)) { l << "X" << (size_t)sig << (size_t)sig2; return; }
    }
    if (sig == 0) {
        ++g_good;
        // duplicate triplets are summed by setFromTriplets: two DBL_MAX entries moved onto the same cell give inf.
        // Non-finite values are outside the property's quantifier (and have no exact token): outcome not judged
        const std::string dump = exactOf(dest);
        if (dump.find("inf") != std::string::npos || dump.find("nan") != std::string::npos) { ++g_nonfinite; l << "N"; return; }
        l << "g" << hexOf(rem) << dump; return;
    }
    bool same = bitsOf(dest) == d0bits;
    if (sig == 1) { ++g_fail; l << (same ? "f" : "F"); } else { ++g_threw; l << (same ? "t" : "T"); }
}

static std::vector<std::string> splitTokens(const std::string & s) {
    std::vector<std::string> t; std::istringstream is(s); std::string x; while (is >> x) t.push_back(x); return t;
}
static std::string joinTokens(const std::vector<std::string> & t) { std::string s; for (auto & x : t) { s += x; s += '\n'; } return s; }

static const char * kCorr[] = {"del", "dup", "neg1", "big", "nan", "abc", "hugeidx", "hugeidx2", "plus1", "flip", "zero", "cnegA", "cnegB"};
static const int kNCorr = 13;
static std::vector<std::string> corruptTokens(std::vector<std::string> t, size_t i, int c) {
    switch (c) {
        // sign flip: a probability / reward / count with the other sign (the negativity clause of every isProbability)
        case 9: t[i] = (t[i][0] == '-') ? t[i].substr(1) : "-" + t[i]; break;
        // the boundary of setDiscount's guard, an empty count, an all-zero row
        case 10: t[i] = "0"; break;
        // compensated negative: two entries 1.5 and -0.5, neighbours in a dense row (A) or in consecutive sparse
        // triplets (B): wherever the two replaced values summed to 1 the row still sums to 1 but is no distribution
        case 11: t[i] = "1.5"; if (i + 1 < t.size()) t[i + 1] = "-0.5"; break;
        case 12: t[i] = "1.5"; if (i + 3 < t.size()) t[i + 3] = "-0.5"; break;
        case 0: t.erase(t.begin() + i); break;
        case 1: t.insert(t.begin() + i, t[i]); break;
        case 2: t[i] = "-1"; break;
        case 3: t[i] = "1e999"; break;
        case 4: t[i] = "nan"; break;
        case 5: t[i] = "abc"; break;
        case 6: t[i] = "4000000000"; break;
        case 7: t[i] = "99999999999999999999"; break;
        default: {   // an integer token becomes its successor (boundary of every range check); other tokens get a leading 1
            bool digits = !t[i].empty() && t[i].size() < 18;
            for (char c : t[i]) if (c < '0' || c > '9') digits = false;
            t[i] = digits ? std::to_string(std::stoull(t[i]) + 1) : "1" + t[i];
        } break;
    }
    return t;
}

template <class T> static void runObject(const std::string & kind, Rng & rng, Shape sh, const T & x, const T & d0, const std::string & tier) {
    std::ostringstream os; writeTo(os, x);
    const std::string text = os.str();
    const std::string d0bits = bitsOf(d0);
    const std::string head = kind + " " + std::to_string(sh.S) + " " + std::to_string(sh.A) + " " + std::to_string(sh.O);
    std::printf("#stat kind:%s 1\n#stat text_bytes %zu\n", kind.c_str(), text.size());
    {   // round trip
        T dest = cloneOf(d0);
        std::string rem;
        const std::string trailer = "77 @ tail";      // "other things can also be put on the stream"
        int sig = loadInto(dest, text + trailer, &rem);
        bool bitsame = sig == 0 && bitsOf(dest) == bitsOf(x);
        long dd = sig == 0 ? decisionDiffs(x, dest, rng, sh) : 0;
        Line l; l << "C17" << "rt" << head << "|" << hexOf(text) << "|" << exactOf(x) << "|" << (size_t)sig << bitsame << dd << (bitsOf(dest) == d0bits);
        emitDecisions(l, x, sh);
        if (sig == 0) l << hexOf(rem) << exactOf(dest);
        l.emit();
    }
    {   // every truncation point
        Line l; l << "C17" << "trunc" << head << "|" << hexOf(text) << "|" << exactOf(x) << "|" << text.size();
        // the exception-mode repetition on every third prefix only (the sweep is quadratic in the text length)
        for (size_t k = 0; k < text.size(); ++k) { g_exceptionMode = (k % 3 == 0); outcome(l, d0, d0bits, text.substr(0, k)); }
        g_exceptionMode = true;
        l.emit();
        std::printf("#stat trunc_points %zu\n", text.size());
    }
    {   // the file with its trailing white space removed: the last token ends exactly at end-of-input (only eofbit is set
        // when the last number / separator has been extracted).  With and without a single trailing blank.
        std::string trimmed = text;
        while (!trimmed.empty() && std::isspace((unsigned char)trimmed.back())) trimmed.pop_back();
        for (const char * tail : {"", " "}) {
            Line l; l << "C17" << "trim" << head << "|" << hexOf(trimmed + tail) << "|" << exactOf(x) << "|";
            T dest = cloneOf(d0);
            std::string rem;
            int sig = loadInto(dest, trimmed + tail, &rem);
            long dd = sig == 0 ? decisionDiffs(x, dest, rng, sh) : 0;
            l << dd << (sig == 0 && bitsOf(dest) == bitsOf(x));
            if (sig == 0) { l << "g" << hexOf(rem) << exactOf(dest); }
            else { bool same = bitsOf(dest) == d0bits; l << (sig == 1 ? (same ? "f" : "F") : (same ? "t" : "T")); }
            l.emit();
        }
        std::printf("#stat trimmed_loads 2\n");
    }
    {   // the caller's stream is not in its default formatting state when the object is written (it was used for a report
        // in fixed notation, for hexadecimal dumps, ...); the reader's stream is a fresh one.  The writers override the
        // precision themselves: the saved object must not depend on the other formatting flags either.
        struct Mode { const char * name; std::ios::fmtflags set, mask; };
        static const Mode modes[] = {
            {"fixed", std::ios::fixed, std::ios::floatfield}, {"scientific", std::ios::scientific, std::ios::floatfield},
            {"hexfloat", std::ios::fixed | std::ios::scientific, std::ios::floatfield},
            {"hex", std::ios::hex, std::ios::basefield}, {"oct", std::ios::oct, std::ios::basefield},
            {"showpos_showpoint_uppercase", std::ios::showpos | std::ios::showpoint | std::ios::uppercase, std::ios::showpos | std::ios::showpoint | std::ios::uppercase},
            {"precision3_left", std::ios::left, std::ios::adjustfield}};
        Line l; l << "C17" << "fmt" << head << "|" << (size_t)(sizeof modes / sizeof modes[0]);
        for (const Mode & m : modes) {
            std::ostringstream o2; o2.setf(m.set, m.mask); o2.precision(3);
            writeTo(o2, x);
            bool restored = o2.flags() == ((std::ostringstream().flags() & ~m.mask) | m.set) && o2.precision() == 3;
            T dest = cloneOf(d0);
            int sig = loadInto(dest, o2.str());
            l << m.name << (size_t)sig << (sig == 0 && bitsOf(dest) == bitsOf(x)) << restored;
        }
        l.emit();
        std::printf("#stat stream_flag_modes %zu\n", sizeof modes / sizeof modes[0]);
    }
    {   // single-token corruptions
        auto toks = splitTokens(text);
        std::vector<size_t> pos;
        size_t cap = tier == "thorough" ? 400 : 48;
        if (toks.size() <= cap) for (size_t i = 0; i < toks.size(); ++i) pos.push_back(i);
        else {
            for (size_t i = 0; i < 8; ++i) pos.push_back(i);
            for (size_t i = 0; i < cap - 16; ++i) pos.push_back(8 + rng.below(toks.size() - 16));
            for (size_t i = toks.size() - 8; i < toks.size(); ++i) pos.push_back(i);
        }
        Line l; l << "C17" << "corrupt" << head << "|" << hexOf(text) << "|" << exactOf(x) << "|" << (size_t)(pos.size() * kNCorr);
        for (size_t i : pos) for (int c = 0; c < kNCorr; ++c) {
            l << i << kCorr[c];
            outcome(l, d0, d0bits, joinTokens(corruptTokens(toks, i, c)));
        }
        l.emit();
        std::printf("#stat corruptions %zu\n", pos.size() * kNCorr);
    }
}

// single-character corruptions: the scanner's acceptance rules (sign, dot, exponent, '@', token splitting)
static const char kBytes[] = {'@', ' ', '-', '+', 'e', '.', 'x', '0', '9'};
template <class T> static void runByteCorruptions(const std::string & kind, Rng & rng, Shape sh, const T & x, const T & d0, const std::string & tier) {
    std::ostringstream os; writeTo(os, x);
    const std::string text = os.str();
    if (text.empty()) return;
    const std::string d0bits = bitsOf(d0);
    size_t n = tier == "thorough" ? 60 : 24;
    Line l; l << "C17" << "bcorrupt" << (kind + " " + std::to_string(sh.S) + " " + std::to_string(sh.A) + " " + std::to_string(sh.O)) << "|" << hexOf(text) << "|" << exactOf(x) << "|" << n;
    for (size_t i = 0; i < n; ++i) {
        size_t pos = rng.below(text.size());
        char c = kBytes[rng.below(sizeof kBytes)];
        std::string t2 = text; t2[pos] = c;
        l << pos << (size_t)(unsigned char)c;
        outcome(l, d0, d0bits, t2);
    }
    l.emit();
    std::printf("#stat byte_corruptions %zu\n", n);
}

// ------------------------------------------------------------------ consecutive objects in ONE stream
// x (kind T), y (another kind U), x again are written one after the other and read back through one istringstream that
// is never cleared.  Variant "none": the raw bytes; otherwise one token of the first / second / third object is
// corrupted: the loads before it succeed, the hit one fails, and every later load (failbit is sticky) must fail too
// with its destination untouched.  After an exception (setDiscount) the sequence stops: the stream is still good there.
template <class V> static bool seqStep(std::vector<std::string> & out, std::istringstream & is, const std::string & src, V & dest, const V & saved, bool & allSaved) {
    const std::string before = bitsOf(dest);
    int sig = 0;
    try { readFrom(is, dest); } catch (const std::exception &) { sig = 2; }
    if (sig == 0 && is.fail()) sig = 1;
    if (sig == 0) {
        std::string rem;
        if (!is.eof()) { auto p = is.tellg(); if (p >= 0) rem = src.substr((size_t)p); }
        const std::string dump = exactOf(dest);
        if (dump.find("inf") != std::string::npos || dump.find("nan") != std::string::npos) { out.push_back("N"); allSaved = false; return false; }
        out.push_back("g"); out.push_back(hexOf(rem)); out.push_back(dump);
        if (bitsOf(dest) != bitsOf(saved)) allSaved = false;
        return true;
    }
    allSaved = false;
    bool same = bitsOf(dest) == before;
    out.push_back(sig == 1 ? (same ? "f" : "F") : (same ? "t" : "T"));
    return sig != 2;
}
template <class T, class U> static void runSeq(const std::string & kindT, const std::string & kindU, Rng & rng, Shape sh, const T & x, const T & d0, int style) {
    U y = Gen<U>::make(rng, sh, style), e0 = Gen<U>::make(rng, sh, (int)rng.below(2));
    std::ostringstream o1, o2; writeTo(o1, x); writeTo(o2, y);
    const std::string text = o1.str() + o2.str() + o1.str();
    const auto toks = splitTokens(text);
    const size_t nx = splitTokens(o1.str()).size(), ny = splitTokens(o2.str()).size();
    for (int variant = 0; variant < 4; ++variant) {
        size_t lo = variant == 1 ? 0 : variant == 2 ? nx : nx + ny, len = variant == 2 ? ny : nx;
        if (variant > 0 && len == 0) continue;
        size_t ci = 0; const char * lab = "none"; std::string t2 = text;
        if (variant > 0) { ci = lo + rng.below(len); int c = (int)rng.below(kNCorr); lab = kCorr[c]; t2 = joinTokens(corruptTokens(toks, ci, c)); }
        std::istringstream is(t2);
        T a = cloneOf(d0); U b = cloneOf(e0); T c = cloneOf(d0);
        std::vector<std::string> out; bool allSaved = true; size_t steps = 1;
        if (seqStep(out, is, t2, a, x, allSaved)) { ++steps; if (seqStep(out, is, t2, b, y, allSaved)) { ++steps; seqStep(out, is, t2, c, x, allSaved); } }
        Line l; l << "C17" << "seq" << (kindT + " " + std::to_string(sh.S) + " " + std::to_string(sh.A) + " " + std::to_string(sh.O)) << kindU << "|" << hexOf(text) << "|"
                  << exactOf(x) << "|" << exactOf(y) << "|" << ci << lab << allSaved << steps;
        for (auto & t : out) l << t;
        l.emit();
        std::printf("#stat seq_loads %zu\n#stat seq_variant:%s 1\n", steps, variant == 0 ? "clean" : variant == 1 ? "first" : variant == 2 ? "middle" : "last");
    }
}

// ------------------------------------------------------------------ negative zero (the model's rationals have no -0: bits only)
template <class T> static void rtBits(const std::string & kind, const T & x, const T & d0) {
    std::ostringstream os; writeTo(os, x);
    T dest = cloneOf(d0); std::string rem;
    int sig = loadInto(dest, os.str() + "77", &rem);
    Line l; l << "C17" << "rtbits" << kind << "|" << (size_t)sig << (sig == 0 && bitsOf(dest) == bitsOf(x)) << (sig == 0 && splitTokens(rem) == std::vector<std::string>{"77"});
    l.emit();
}
static void negativeZeros() {
    const double nz = -0.0;
    {   M::Model x(2, 2), d0(2, 2); AI::Matrix2D R(2, 2); R << nz, 1.0, 5e-324, nz; x.setRewardFunction(R);
        AI::Matrix3D T(2, AI::Matrix2D(2, 2)); T[0] << nz, 1.0, 1.0, nz; T[1] << 0.5, 0.5, nz, 1.0; x.setTransitionFunction(T);
        rtBits("dmodel", x, d0); }
    {   M::SparseModel x(2, 2), d0(2, 2); AI::SparseMatrix2D R(2, 2); R.insert(0, 1) = nz; R.insert(1, 0) = -5e-324; x.setRewardFunction(R);
        AI::SparseMatrix3D T(2, AI::SparseMatrix2D(2, 2)); T[0].insert(0, 0) = nz; T[0].insert(0, 1) = 1.0; T[0].insert(1, 1) = 1.0; T[1].insert(0, 0) = 1.0; T[1].insert(1, 0) = 1.0;
        x.setTransitionFunction(T); rtBits("smodel", x, d0); }
    {   M::Experience x(2, 1), d0(2, 1); AI::Matrix2D R(2, 1); R << nz, -1.5; x.setRewardMatrix(R); AI::Matrix2D m2(2, 1); m2 << nz, 0.0; x.setM2Matrix(m2); rtBits("dexp", x, d0); }
    {   M::SparseExperience x(2, 1), d0(2, 1); AI::SparseMatrix2D R(2, 1); R.insert(1, 0) = nz; x.setRewardMatrix(R); rtBits("sexp", x, d0); }
    {   AI::Matrix2D m(2, 2); m << nz, 1.0, 1.0, nz; M::Policy x(m), d0(2, 2); rtBits("mpol", x, d0); }
    {   auto vf = PO::makeValueFunction(2); M::Values v(2); v << nz, -5e-324; PO::VList vl; vl.push_back(PO::VEntry{v, 1, PO::VObs{0, 0}}); vf.push_back(vl);
        PO::Policy x(2, 2, 2, vf), d0(2, 2, 2); rtBits("ppol", x, d0); }
    {   AI::Vector x(3), d0(3); x << nz, 1.0, nz; d0.setZero(); rtBits("vec", x, d0); }
    std::printf("#stat negative_zero_objects 7\n");
}

template <class T> static void runKind(const std::string & kind, Rng & rng, Shape sh, int style, const std::string & tier) {
    T x = Gen<T>::make(rng, sh, style);
    T d0 = Gen<T>::make(rng, sh, (int)rng.below(2));
    runObject(kind, rng, sh, x, d0, tier);
    runByteCorruptions(kind, rng, sh, x, d0, tier);
    if (rng.coin()) runSeq<T, M::Experience>(kind, "dexp", rng, sh, x, d0, style);
    else runSeq<T, PO::Policy>(kind, "ppol", rng, sh, x, d0, style);
    // semantically invalid input: the same text offered to destinations of other shapes (one more / one fewer state,
    // action, observation): every such load must be rejected or produce a valid object of the DESTINATION's shape
    std::ostringstream os; writeTo(os, x);
    const std::string text = os.str();
    Shape alts[] = {{sh.S + 1, sh.A, sh.O}, {sh.S, sh.A + 1, sh.O}, {sh.S, sh.A, sh.O + 1},
                    {sh.S > 1 ? sh.S - 1 : sh.S, sh.A, sh.O}, {sh.S, sh.A > 1 ? sh.A - 1 : sh.A, sh.O}, {sh.S, sh.A, sh.O > 1 ? sh.O - 1 : sh.O}};
    for (const Shape & s2 : alts) {
        if (s2.S == sh.S && s2.A == sh.A && s2.O == sh.O) continue;
        T d1 = Gen<T>::make(rng, s2, (int)rng.below(2));
        Line l; l << "C17" << "xload" << (kind + " " + std::to_string(s2.S) + " " + std::to_string(s2.A) + " " + std::to_string(s2.O)) << "|" << hexOf(text) << "|";
        outcome(l, d1, bitsOf(d1), text);
        l.emit();
        std::printf("#stat shape_mismatch_loads 1\n");
    }
}

// ------------------------------------------------------------------ fixed witnesses (lowest indices)
static void witnessPolicyPrecision(Rng & rng, const std::string & tier) {
    // two entries that differ only beyond the 6th significant digit: the better one at corner 0 is the second
    Shape sh{2, 2, 2};
    auto vf = PO::makeValueFunction(2);
    M::Values v0(2), v1(2); v0 << 0.333333, 0.0; v1 << 1.0 / 3.0, 0.0;
    PO::VList vl; vl.push_back(PO::VEntry{v0, 0, PO::VObs{0, 0}}); vl.push_back(PO::VEntry{v1, 1, PO::VObs{0, 0}});
    vf.push_back(vl);
    PO::Policy x(2, 2, 2, vf), d0(2, 2, 2);
    runObject("ppol", rng, sh, x, d0, tier);
}
static void witnessSparseCount(Rng & rng, const std::string & tier) {
    Shape sh{2, 1, 0};
    M::SparseExperience x(2, 1), d0(2, 1);
    AI::SparseTable3D v; AI::SparseTable2D t(2, 2); t.insert(0, 1) = 9007199254740993ul; t.insert(1, 1) = 3; t.makeCompressed(); v.push_back(t);
    x.setVisitsTable(v);
    runObject("sexp", rng, sh, x, d0, tier);
}

static void witnessCopiedPolicy() {
    // the destination is a copy-constructed MDP::Policy: the load succeeds, what do its queries answer afterwards?
    AI::Matrix2D m1(2, 2), m2(2, 2); m1 << 0.25, 0.75, 0.5, 0.5; m2 << 1.0, 0.0, 0.0, 1.0;
    M::Policy a(m1), x(m2);
    M::Policy b(a);
    std::ostringstream os; os << x;
    int sig = loadInto(b, os.str());
    Line l; l << "C17" << "rtcopy" << (size_t)2 << (size_t)2 << "|" << (size_t)sig << exactOf(x) << "|" << exactOf(b);
    l.emit();
}

// a policy as a real solver produces it (IncrementalPruning on the tiger problem, 4 steps) and the tiger model itself:
// ties the model's validity predicate (horizon-0 list, link ranges, O links per entry) to solver output
static void solverObjects(Rng & rng, const std::string & tier) {
    auto model = PO::makeTigerProblem();
    model.setDiscount(0.95);
    PO::IncrementalPruning solver(4, 0.0);
    auto [var, vf] = solver(model);
    (void)var;
    Shape sh{model.getS(), model.getA(), model.getO()};
    PO::Policy x(sh.S, sh.A, sh.O, vf), d0(sh.S, sh.A, sh.O);
    runObject("ppol", rng, sh, x, d0, tier);
    PO::Model<M::Model> d1(sh.O, sh.S, sh.A);
    runObject("pdd", rng, sh, model, d1, tier);
    PO::SparseModel<M::SparseModel> sm(model), d2(sh.O, sh.S, sh.A);
    runObject("pss", rng, sh, sm, d2, tier);
}

// finding C17-4: objects whose values need the default float notation / whose counts need base 10 (fmt lines)
static void witnessStreamFlags(Rng & rng, const std::string & tier) {
    {   M::Model x(2, 1), d0(2, 1); AI::Matrix2D R(2, 1); R << 1e-7 / 3, 1.0 / 3; x.setRewardFunction(R); x.setDiscount(0.9);
        runObject("dmodel", rng, Shape{2, 1, 0}, x, d0, tier); }
    {   M::Experience x(2, 1), d0(2, 1); for (int i = 0; i < 26; ++i) x.record(0, 0, 1, 1.0);
        runObject("dexp", rng, Shape{2, 1, 0}, x, d0, tier); }
    {   auto vf = PO::makeValueFunction(2); M::Values v(2); v << 1e-7 / 3, 4e-18; PO::VList vl;
        for (size_t i = 0; i < 11; ++i) vl.push_back(PO::VEntry{v, 1, PO::VObs{0, 0}});
        vf.push_back(vl); PO::VList v2; v2.push_back(PO::VEntry{v, 0, PO::VObs{10, 9}}); vf.push_back(v2);
        PO::Policy x(2, 2, 2, vf), d0(2, 2, 2);
        runObject("ppol", rng, Shape{2, 2, 2}, x, d0, tier); }
}

static const int kWitnesses = 6;
long verif::verif_ncases(const std::string & tier) { return kWitnesses + (tier == "thorough" ? 1500 : 220); }

void verif::verif_case(Rng & rng, long idx, const std::string & tier) {
    if (idx == 0) { witnessPolicyPrecision(rng, tier); return; }
    if (idx == 1) { witnessSparseCount(rng, tier); return; }
    if (idx == 2) { witnessCopiedPolicy(); return; }
    if (idx == 3) { solverObjects(rng, tier); return; }
    if (idx == 4) { negativeZeros(); return; }
    if (idx == 5) { witnessStreamFlags(rng, tier); return; }
    long k = (idx - kWitnesses) % 11;
    int style = (int)(((idx - kWitnesses) / 11) % 2);       // alternate dyadic / ugly
    Shape sh{(size_t)rng.range(1, 5), (size_t)rng.range(1, 3), (size_t)rng.range(1, 3)};
    if (tier == "thorough" && rng.coin(1, 6)) sh = Shape{(size_t)rng.range(4, 7), (size_t)rng.range(1, 4), (size_t)rng.range(1, 4)};
    std::printf("#stat style:%d 1\n", style);
    g_good = g_fail = g_threw = g_exmode = g_nonfinite = 0;
    switch (k) {
        case 0: runKind<M::Model>("dmodel", rng, sh, style, tier); break;
        case 1: runKind<M::SparseModel>("smodel", rng, sh, style, tier); break;
        case 2: runKind<M::Experience>("dexp", rng, sh, style, tier); break;
        case 3: runKind<M::SparseExperience>("sexp", rng, sh, style, tier); break;
        case 4: runKind<M::Policy>("mpol", rng, sh, style, tier); break;
        case 5: runKind<PO::Policy>("ppol", rng, sh, style, tier); break;
        case 6: runKind<PO::Model<M::Model>>("pdd", rng, sh, style, tier); break;
        case 7: runKind<PO::SparseModel<M::SparseModel>>("pss", rng, sh, style, tier); break;
        case 8: runKind<PO::Model<M::SparseModel>>("pds", rng, sh, style, tier); break;
        case 9: runKind<PO::SparseModel<M::Model>>("psd", rng, sh, style, tier); break;
        default: runKind<AI::Vector>("vec", rng, sh, style, tier); break;
    }
    std::printf("#stat load_good %ld\n#stat load_failbit %ld\n#stat load_threw %ld\n#stat loads_repeated_in_exception_mode %ld\n#stat loaded_nonfinite_not_judged %ld\n", g_good, g_fail, g_threw, g_exmode, g_nonfinite);
}

VERIF_MAIN
