// compile probe: SARSOP, GapMin and bestConservativeAction instantiated with a user-defined model that is IsModel but not IsModelEigen
// (all three are declared `template <IsModel M>` and carry `if constexpr (!MDP::IsModelEigen<M>)` branches)
#include "c03_gmodel.hpp"
#include <AIToolbox/POMDP/Algorithms/SARSOP.hpp>
#include <AIToolbox/POMDP/Algorithms/GapMin.hpp>
void f(const GModel & m, const AIToolbox::POMDP::Belief & b) {
    AIToolbox::POMDP::SARSOP s(0.1, 0.1); auto r = s(m, b); (void)r;
    AIToolbox::POMDP::GapMin g(0.1, 2); auto r2 = g(m, b); (void)r2;
}
