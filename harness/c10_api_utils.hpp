// harness/c10_api_utils.hpp — included by harness/c10.cpp AFTER "common/verif.hpp" and "common/gen.hpp"
// Public-API sweep, area `utils`: Seeder::getRootSeed, Statistics, Adam, ceil, copyDumb3D, IndexMapIterator,
// IndexSkipMap (const), LP::popRow / LP::addColumn, findBestDeltaDominated, computeOptimisticValue,
// getEntropy / getEntropyBase2, StorageVector, StorageMatrix2D.
//
// Groups 0..8 only perform calls that are valid AND do not trip the defects found while writing this file;
// group 9 re-runs the defective calls, each in a forked child (they abort / ASan-fail the process), and turns the
// child's exit status into a protocol line. Define C10API_UTILS_NO_FORK to run those calls in-process instead.
#pragma once
#include <AIToolbox/Seeder.hpp>
#include <AIToolbox/Tools/Statistics.hpp>
#include <AIToolbox/Utils/Adam.hpp>
#include <AIToolbox/Utils/Core.hpp>
#include <AIToolbox/Utils/IndexMap.hpp>
#include <AIToolbox/Utils/LP.hpp>
#include <AIToolbox/Utils/Polytope.hpp>
#include <AIToolbox/Utils/Probability.hpp>
#include <AIToolbox/Utils/StorageEigen.hpp>
#include <boost/multi_array.hpp>
#include <array>
#include <sstream>
#include <vector>
#include <algorithm>
#include <cmath>
#include <unistd.h>
#include <fcntl.h>
#include <sys/wait.h>

namespace c10api {
namespace utils_detail {

using verif::Rng;
using AIToolbox::Vector;
using AIToolbox::Matrix2D;

inline void emit(const char * name, bool ok) {
    verif::Line l; l << "C10" << "range" << name << "|" << ok; l.emit();
}
inline void stat(const char * what) { std::printf("#stat api_%s 1\n", what); }

inline bool close(double a, double b, double tol) { return std::isfinite(a) && std::isfinite(b) && std::fabs(a - b) <= tol; }

// multiples of 1/4 in [-8,8]
inline double dyq(Rng & rng) { return (double)rng.range(-32, 32) / 4.0; }

// Under ASan, ask whether the memory a view points to has been released, instead of reading it: the ASan report of
// a use-after-free costs ~200 ms of symbolisation even in a forked child.
#if defined(__SANITIZE_ADDRESS__)
extern "C" void * __asan_region_is_poisoned(void * beg, size_t size);
inline bool viewFreed(const double * p, size_t n) { return n && __asan_region_is_poisoned((void *)p, n * sizeof(double)) != nullptr; }
#else
inline bool viewFreed(const double *, size_t) { return false; }
#endif

// run f in a forked child; 1 iff the child finished normally and f returned true
template <class F> inline bool isolated(F f) {
#ifdef C10API_UTILS_NO_FORK
    return f();
#else
    std::fflush(stdout); std::fflush(stderr);
    pid_t pid = fork();
    if (pid < 0) return f();
    if (pid == 0) {
        int fd = open("/dev/null", O_WRONLY);
        if (fd >= 0) { dup2(fd, 2); }
        bool ok = false;
        try { ok = f(); } catch (...) { ok = false; }
        _exit(ok ? 0 : 3);
    }
    int st = 0;
    if (waitpid(pid, &st, 0) != pid) return false;
    return WIFEXITED(st) && WEXITSTATUS(st) == 0;
#endif
}

// ---------------------------------------------------------------------------------------------- group 0
inline void g_seeder_ceil_entropy(Rng & rng) {
    // Seeder
    {
        unsigned s = (unsigned)rng.next();
        if (rng.coin(1, 8)) s = rng.coin() ? 0u : 0xFFFFFFFFu;
        AIToolbox::Seeder::setRootSeed(s);
        bool ok = AIToolbox::Seeder::getRootSeed() == s;
        unsigned a = AIToolbox::Seeder::getSeed(), a2 = AIToolbox::Seeder::getSeed();
        ok = ok && AIToolbox::Seeder::getRootSeed() == s;      // "the last set root seed", not the last drawn one
        AIToolbox::Seeder::setRootSeed(s);
        unsigned b = AIToolbox::Seeder::getSeed(), b2 = AIToolbox::Seeder::getSeed();
        emit("Seeder.getRootSeed_returns_last_set", ok);
        emit("Seeder.same_root_same_sequence", a == b && a2 == b2);
    }
    // ceil(unsigned, unsigned), x + y - 1 < 2^32
    {
        bool ok = true;
        for (int k = 0; k < 8; ++k) {
            unsigned x, y;
            switch (rng.below(5)) {
                case 0: x = (unsigned)rng.below(20); y = 1 + (unsigned)rng.below(7); stat("ceil_small"); break;
                case 1: x = 0; y = 1 + (unsigned)rng.below(1u << 31); stat("ceil_zero_dividend"); break;
                case 2: y = 1 + (unsigned)rng.below(1000); x = y * (unsigned)rng.below(1000); stat("ceil_multiple"); break;
                case 3: x = (unsigned)rng.below(1ull << 31); y = 1; stat("ceil_divisor_one"); break;
                default: x = (unsigned)rng.below(1ull << 31); y = 1 + (unsigned)rng.below(1ull << 31); stat("ceil_large"); break;
            }
            unsigned r = AIToolbox::ceil(x, y);
            uint64_t e1 = ((uint64_t)x + y - 1) / y;
            uint64_t e2 = (uint64_t)(x / y) + (x % y != 0);
            ok = ok && r == e1 && r == e2;
        }
        emit("ceil.equals_integer_ceiling", ok);
    }
    // entropy
    {
        size_t n = 1 + rng.below(6);
        int mode = (int)rng.below(4);      // 0 strictly positive random, 1 uniform, 2 deterministic (n==1 or one-hot), 3 some zero entries
        Vector p(n);
        if (mode == 1) { p.fill(1.0 / (double)n); stat("entropy_uniform"); }
        else if (mode == 2) { p.setZero(); p[rng.below(n)] = 1.0; stat("entropy_deterministic"); }
        else {
            // counts out of 2^6, all >= 1 in mode 0; in mode 3 at least one zero (n >= 2)
            if (mode == 3 && n < 2) n = 2;
            p.resize(n);
            std::vector<unsigned> k(n, mode == 0 ? 1u : 0u);
            unsigned left = 64 - (mode == 0 ? (unsigned)n : 0u);
            size_t zeroAt = rng.below(n);
            for (unsigned t = 0; t < left; ++t) { size_t i = rng.below(n); if (mode == 3 && i == zeroAt) i = (i + 1) % n; ++k[i]; }
            for (size_t i = 0; i < n; ++i) p[i] = k[i] / 64.0;
            stat(mode == 0 ? "entropy_positive" : "entropy_zero_entries");
        }
        double H = 0.0, H2 = 0.0; bool hasZero = false;
        for (size_t i = 0; i < n; ++i) { if (p[i] > 0) { H -= p[i] * std::log(p[i]); H2 -= p[i] * std::log2(p[i]); } else hasZero = true; }
        const double e = AIToolbox::getEntropy(p), e2 = AIToolbox::getEntropyBase2(p);
        if (!hasZero) {
            // magnitude: certain. (n==1 gives exactly 0.)
            emit("getEntropy.positive_support_magnitude", close(std::fabs(e), H, 1e-12));
            emit("getEntropyBase2.positive_support_magnitude", close(std::fabs(e2), H2, 1e-12));
            // documented as "the entropy of the input": -sum p log p >= 0
            // (the SIGN of the result — the functions return sum p log p, i.e. minus the entropy their documentation names — is a documentation
            //  matter outside C10; only magnitude and finiteness are required here)
            if (mode == 1) emit("getEntropy.uniform_is_log_n", close(std::fabs(e), std::log((double)n), 1e-12) && close(std::fabs(e2), std::log2((double)n), 1e-12));
        } else {
            // a ProbabilityVector may contain zeros (0 log 0 = 0)
            emit("getEntropy.zero_probability_entries_finite", std::isfinite(e) && close(std::fabs(e), H, 1e-12));
            emit("getEntropyBase2.zero_probability_entries_finite", std::isfinite(e2) && close(std::fabs(e2), H2, 1e-12));
        }
    }
}

// ---------------------------------------------------------------------------------------------- group 1
inline void g_statistics(Rng & rng) {
    const size_t T = 1 + rng.below(6);
    const size_t runs = 2 + rng.below(4);
    stat(T == 1 ? "statistics_one_timestep" : "statistics_multi_timestep");
    std::vector<std::vector<double>> v(runs, std::vector<double>(T));
    const bool constant = rng.coin(1, 6);   // zero variance
    if (constant) stat("statistics_constant_values");
    for (size_t t = 0; t < T; ++t) { double c = dyq(rng); for (size_t r = 0; r < runs; ++r) v[r][t] = constant ? c : dyq(rng); }

    AIToolbox::Statistics st(T);
    for (size_t r = 0; r < runs; ++r) for (size_t t = 0; t < T; ++t) st.record(v[r][t], t);
    const auto res = st.process();

    bool okSize = res.size() == T, okMean = true, okCumMean = true, okStd = true, okCumStd = true;
    double cumMean = 0.0;
    std::vector<double> cum(runs, 0.0);
    for (size_t t = 0; t < T && okSize; ++t) {
        double sum = 0; for (size_t r = 0; r < runs; ++r) { sum += v[r][t]; cum[r] += v[r][t]; }
        const double mean = sum / (double)runs; cumMean += mean;
        double var = 0; for (size_t r = 0; r < runs; ++r) var += (v[r][t] - mean) * (v[r][t] - mean);
        var /= (double)(runs - 1);
        double cm = 0; for (size_t r = 0; r < runs; ++r) cm += cum[r]; cm /= (double)runs;
        double cvar = 0; for (size_t r = 0; r < runs; ++r) cvar += (cum[r] - cm) * (cum[r] - cm);
        cvar /= (double)(runs - 1);
        const auto & [m, cmLib, sd, csd] = res[t];
        okMean = okMean && close(m, mean, 1e-9);
        okCumMean = okCumMean && close(cmLib, cumMean, 1e-9);
        okStd = okStd && std::isfinite(sd) && sd >= 0.0 && close(sd * sd, var, 1e-7);
        okCumStd = okCumStd && std::isfinite(csd) && csd >= 0.0 && close(csd * csd, cvar, 1e-7);
    }
    emit("Statistics.process_size_is_timesteps", okSize);
    emit("Statistics.mean", okMean);
    emit("Statistics.cumulative_mean", okCumMean);
    emit("Statistics.std_from_unbiased_variance", okStd);
    emit("Statistics.cumulative_std_from_unbiased_variance", okCumStd);

    // operator<< : one line per timestep "t mean cumMean std cumStd"
    std::ostringstream os;
    std::ostream & back = (os << st);
    bool okStream = (&back == &os);
    std::istringstream is(os.str());
    std::string line; size_t lines = 0;
    while (std::getline(is, line)) {
        std::istringstream ls(line);
        unsigned t; double a, b, c, d;
        if (!(ls >> t >> a >> b >> c >> d)) { okStream = false; break; }
        if (t != lines || lines >= res.size()) { okStream = false; break; }
        const auto & [m, cmLib, sd, csd] = res[lines];
        okStream = okStream && close(a, m, 1e-4 * (1 + std::fabs(m))) && close(b, cmLib, 1e-4 * (1 + std::fabs(cmLib)))
                            && close(c, sd, 1e-4 * (1 + sd)) && close(d, csd, 1e-4 * (1 + csd));
        ++lines;
    }
    emit("Statistics.stream_output_one_line_per_timestep", okStream && lines == T);
    // "each reprint will recompute": a second print gives the same text
    std::ostringstream os2; os2 << st;
    emit("Statistics.stream_output_repeatable", os2.str() == os.str());
}

// ---------------------------------------------------------------------------------------------- group 2
inline void g_adam(Rng & rng) {
    const size_t n = 1 + rng.below(4);
    static const double alphas[] = {1.0 / 1024, 1.0 / 4096};
    const double alpha = alphas[rng.below(2)];
    const bool defaults = rng.coin();
    const double beta1 = defaults ? 0.9 : (rng.coin() ? 0.5 : 0.9);
    const double beta2 = defaults ? 0.999 : (rng.coin() ? 0.99 : 0.999);
    const double eps = 1e-8;
    stat(defaults ? "adam_default_betas" : "adam_custom_betas");

    // |x0_i - c_i| in [4,8] (or exactly 0 for a zero-gradient coordinate): with alpha <= 2^-10 the iterate cannot cross c in
    // 200 steps (per-step move <= alpha * max(1, (1-b1)/sqrt(1-b2)) <= 16 alpha), so every gradient keeps its sign.
    Vector c(n), x(n), g(n);
    std::vector<bool> zero(n, false);
    for (size_t i = 0; i < n; ++i) {
        c[i] = dyq(rng);
        double d = 4.0 + rng.dyadic(4) * 4.0; if (rng.coin()) d = -d;
        if (i > 0 && rng.coin(1, 5)) { d = 0.0; zero[i] = true; stat("adam_zero_gradient_coordinate"); }
        x[i] = c[i] + d;
    }
    const Vector x0 = x;
    g = 2.0 * (x - c);

    auto make = [&]() { return defaults ? AIToolbox::Adam(&x, g, alpha) : AIToolbox::Adam(&x, g, alpha, beta1, beta2, eps); };
    AIToolbox::Adam adam = make();
    bool okGet = adam.getAlpha() == alpha && adam.getBeta1() == beta1 && adam.getBeta2() == beta2 && adam.getEpsilon() == eps;
    emit("Adam.getters_return_ctor_arguments", okGet);

    auto firstStepOk = [&](const Vector & before, const Vector & after, const Vector & grad) {
        bool ok = true;
        for (size_t i = 0; i < n; ++i) {
            const double d = after[i] - before[i];
            if (grad[i] == 0.0) ok = ok && d == 0.0;
            else ok = ok && close(std::fabs(d), alpha, 1e-6 * alpha) && ((d < 0) == (grad[i] > 0));
        }
        return ok;
    };

    Vector before = x;
    adam.step();
    emit("Adam.first_step_has_magnitude_alpha", firstStepOk(before, x, g));

    bool mono = true;
    double prev = (x - c).norm();
    for (int k = 1; k < 200; ++k) {
        g = 2.0 * (x - c);
        adam.step();
        const double d = (x - c).norm();
        mono = mono && std::isfinite(d) && d <= prev;
        prev = d;
    }
    bool closer = prev < (x0 - c).norm();
    for (size_t i = 0; i < n; ++i) if (zero[i]) closer = closer && x[i] == x0[i];
    emit("Adam.step_moves_towards_minimum", closer && mono);

    // reset(): point untouched, process restarts (next step has magnitude alpha again)
    before = x;
    adam.reset();
    bool untouched = (x.array() == before.array()).all();
    g = 2.0 * (x - c);
    adam.step();
    emit("Adam.reset_restarts_and_keeps_point", untouched && firstStepOk(before, x, g));

    // reset(point, gradient): new vectors of the same size; the old point is no longer written
    Vector y(n), gy(n);
    for (size_t i = 0; i < n; ++i) { double d = 4.0 + rng.dyadic(4) * 4.0; if (rng.coin()) d = -d; y[i] = c[i] + d; }
    gy = 2.0 * (y - c);
    const Vector xKeep = x, yBefore = y;
    adam.reset(&y, gy);
    adam.step();
    bool ok2 = (x.array() == xKeep.array()).all() && firstStepOk(yBefore, y, gy);
    double dy0 = (yBefore - c).norm();
    for (int k = 1; k < 50; ++k) { gy = 2.0 * (y - c); adam.step(); }
    ok2 = ok2 && (y - c).norm() < dy0 && (x.array() == xKeep.array()).all();
    emit("Adam.reset_with_new_vectors", ok2);
}

// ---------------------------------------------------------------------------------------------- group 3
inline void g_copy_indexmap(Rng & rng) {
    // copyDumb3D
    {
        const size_t d1 = rng.coin(1, 8) ? 0 : 1 + rng.below(3), d2 = 1 + rng.below(3), d3 = 1 + rng.below(3);
        stat(d1 == 0 ? "copyDumb3D_empty" : "copyDumb3D_nonempty");
        using Nested = std::vector<std::vector<std::vector<double>>>;
        Nested src(d1, std::vector<std::vector<double>>(d2, std::vector<double>(d3)));
        for (auto & a : src) for (auto & b : a) for (auto & x : b) x = dyq(rng);
        bool ok = true;
        // nested vectors (exact capacity) -> multi_array
        AIToolbox::DumbMatrix3D m1(boost::extents[d1][d2][d3]);
        AIToolbox::copyDumb3D(src, m1, d1, d2, d3);
        for (size_t i = 0; i < d1; ++i) for (size_t j = 0; j < d2; ++j) for (size_t k = 0; k < d3; ++k) ok = ok && m1[i][j][k] == src[i][j][k];
        // multi_array -> multi_array
        AIToolbox::DumbMatrix3D m2(boost::extents[d1][d2][d3]);
        AIToolbox::copyDumb3D(m1, m2, d1, d2, d3);
        ok = ok && (m1 == m2);
        // multi_array -> nested vectors
        Nested dst(d1, std::vector<std::vector<double>>(d2, std::vector<double>(d3, -99.0)));
        AIToolbox::copyDumb3D(m2, dst, d1, d2, d3);
        ok = ok && dst == src;
        // multi_array -> vector<vector<Eigen Vector>> (operator[] on an Eigen vector)
        std::vector<std::vector<Vector>> ev(d1, std::vector<Vector>(d2, Vector::Constant(d3, -99.0)));
        AIToolbox::copyDumb3D(m2, ev, d1, d2, d3);
        for (size_t i = 0; i < d1; ++i) for (size_t j = 0; j < d2; ++j) for (size_t k = 0; k < d3; ++k) ok = ok && ev[i][j][k] == src[i][j][k];
        // unsigned long tables, only a leading sub-block (dimensions "must match the ones specified": copy all)
        AIToolbox::DumbTable3D t1(boost::extents[d1][d2][d3]), t2(boost::extents[d1][d2][d3]);
        for (size_t i = 0; i < d1; ++i) for (size_t j = 0; j < d2; ++j) for (size_t k = 0; k < d3; ++k) t1[i][j][k] = rng.below(1000);
        AIToolbox::copyDumb3D(t1, t2, d1, d2, d3);
        ok = ok && (t1 == t2);
        emit("copyDumb3D.copies_every_element", ok);
    }
    // IndexMapIterator default ctor / operator<
    {
        const size_t n = 1 + rng.below(6);
        std::vector<int> items(n); for (auto & x : items) x = (int)rng.range(-50, 50);
        items.shrink_to_fit();
        const size_t k = rng.coin(1, 6) ? 0 : 1 + rng.below(7);
        std::vector<size_t> ids(k); for (auto & i : ids) i = rng.below(n);     // any order, repeats allowed
        ids.shrink_to_fit();
        stat(k == 0 ? "indexmap_empty_ids" : "indexmap_ids");
        using Map = AIToolbox::IndexMap<std::vector<size_t>, std::vector<int>>;
        Map map(ids, items);
        Map::iterator it;                     // default ctor
        Map::const_iterator cit;              // default ctor (const container)
        it = map.begin(); cit = map.cbegin();
        const auto e = map.end(); const auto ce = map.cend();
        std::vector<int> seen, cseen;
        for (; it < e; ++it) seen.push_back(*it);
        for (; cit < ce; ++cit) cseen.push_back(*cit);
        std::vector<int> expect; for (auto i : ids) expect.push_back(items[i]);
        bool ok = seen == expect && cseen == expect && map.size() == k;
        const auto b = map.begin();
        ok = ok && ((b < e) == (k > 0)) && !(e < b) && !(b < b) && !(e < e);
        for (size_t i = 0; i <= k; ++i) for (size_t j = 0; j <= k; ++j)
            ok = ok && (((b + (std::ptrdiff_t)i) < (b + (std::ptrdiff_t)j)) == (i < j));
        emit("IndexMapIterator.default_ctor_and_less_than", ok);
    }
    // IndexSkipMap begin() const / end() const
    {
        const size_t n = rng.coin(1, 10) ? 0 : 1 + rng.below(7);
        std::vector<int> items(n); for (auto & x : items) x = (int)rng.range(-50, 50);
        items.shrink_to_fit();
        std::vector<size_t> skip;
        const int mode = (int)rng.below(6);   // 0 none, 1 front run, 2 back run, 3 all, 4/5 random subset
        for (size_t i = 0; i < n; ++i) {
            bool s = false;
            if (mode == 1) s = i < (n + 1) / 2; else if (mode == 2) s = i >= n / 2; else if (mode == 3) s = true; else if (mode >= 4) s = rng.coin();
            if (s) skip.push_back(i);
        }
        skip.shrink_to_fit();
        static const char * names[] = {"skipmap_none", "skipmap_front", "skipmap_back", "skipmap_all", "skipmap_random", "skipmap_random"};
        stat(n == 0 ? "skipmap_empty_items" : names[mode]);
        std::vector<int> expect; std::vector<size_t> expectIds;
        for (size_t i = 0; i < n; ++i) if (!std::binary_search(skip.begin(), skip.end(), i)) { expect.push_back(items[i]); expectIds.push_back(i); }

        bool ok = true;
        {   // owning
            const AIToolbox::IndexSkipMap<std::vector<size_t>, std::vector<int>> sm(skip, items);
            std::vector<int> seen; std::vector<size_t> seenIds;
            const auto e = sm.end();
            for (auto it = sm.begin(); it != e; ++it) { seen.push_back(*it); seenIds.push_back(it.toContainerId()); if (seen.size() > n) break; }
            ok = ok && seen == expect && seenIds == expectIds;
            ok = ok && (sm.begin() == sm.end()) == expect.empty();
        }
        {   // non-owning (pointer to ids), as used by findVerticesNaive
            const AIToolbox::IndexSkipMap<const std::vector<size_t> *, std::vector<int>> sm(&skip, items);
            std::vector<int> seen;
            const auto e = sm.end();
            for (auto it = sm.begin(); it != e; ++it) { seen.push_back(*it); if (seen.size() > n) break; }
            ok = ok && seen == expect;
        }
        {   // const container
            const std::vector<int> & citems = items;
            const AIToolbox::IndexSkipMap<std::vector<size_t>, const std::vector<int>> sm(skip, citems);
            std::vector<int> seen;
            const auto e = sm.end();
            for (auto it = sm.begin(); it != e; ++it) { seen.push_back(*it); if (seen.size() > n) break; }
            ok = ok && seen == expect;
        }
        emit("IndexSkipMap.const_iteration_skips_exactly_the_ids", ok);
    }
}

// ---------------------------------------------------------------------------------------------- group 4
// max c.x  s.t. x_i <= u_i (one row each), optionally sum x <= t; c > 0. Closed form: fractional knapsack.
inline double knapsack(const std::vector<double> & c, const std::vector<double> & u, double t) {
    std::vector<size_t> o(c.size()); for (size_t i = 0; i < o.size(); ++i) o[i] = i;
    std::sort(o.begin(), o.end(), [&](size_t a, size_t b) { return c[a] > c[b]; });
    double v = 0; for (auto i : o) { double x = std::min(u[i], t); v += c[i] * x; t -= x; }
    return v;
}

inline void g_lp(Rng & rng) {
    using AIToolbox::LP;
    const double tol = 1e-6;
    // ---- A: columns added after construction, box + knapsack row, popRow
    {
        const size_t n0 = 1 + rng.below(2), extra = rng.below(3), n = n0 + extra;
        stat(extra ? "lp_added_columns" : "lp_no_added_columns");
        LP lp(n0);
        bool okSize = (size_t)lp.row.size() == n0, okIdx = true;
        for (size_t e = 0; e < extra; ++e) {
            const size_t before = (size_t)lp.row.size();
            const size_t id = lp.addColumn();
            okSize = okSize && (size_t)lp.row.size() == before + 1;
            okIdx = okIdx && id == before;        // "@return The index of the newly inserted column" (indices are 0-based: setObjective(n), row[n])
        }
        emit("LP.addColumn_grows_row_by_one", okSize);
        if (extra) emit("LP.addColumn_returns_index_of_new_column", okIdx);

        std::vector<double> c(n), u(n);
        double cu = 0, su = 0;
        for (size_t i = 0; i < n; ++i) { c[i] = (1 + rng.below(8)) / 2.0; u[i] = (1 + rng.below(16)) / 4.0; cu += c[i] * u[i]; su += u[i]; }
        for (size_t i = 0; i < n; ++i) lp.row[i] = c[i];
        lp.setObjective(true);
        for (size_t i = 0; i < n; ++i) { lp.row.setZero(); lp.row[i] = 1.0; lp.pushRow(LP::Constraint::LessEqual, u[i]); }

        auto feasible = [&](const Vector & x, double cap) {
            double s = 0; bool ok = (size_t)x.size() == n;
            for (size_t i = 0; ok && i < n; ++i) { ok = x[i] >= -tol && x[i] <= u[i] + tol; s += x[i]; }
            return ok && s <= cap + tol;
        };
        auto value = [&](const Vector & x) { double v = 0; for (size_t i = 0; i < n; ++i) v += c[i] * x[i]; return v; };

        // knapsack row on top of the stack
        const double t = su / 2.0;
        lp.row.fill(1.0);
        lp.pushRow(LP::Constraint::LessEqual, t);
        double obj = 0;
        auto s1 = lp.solve(n, &obj);
        const double k = knapsack(c, u, t);
        emit("LP.solve_box_plus_knapsack_row", s1 && feasible(*s1, t) && close(value(*s1), k, tol * (1 + k)) && close(obj, k, tol * (1 + k)));

        // popRow removes exactly the knapsack row
        lp.popRow();
        auto s2 = lp.solve(n, &obj);
        bool ok2 = s2 && close(obj, cu, tol * (1 + cu));
        for (size_t i = 0; ok2 && i < n; ++i) ok2 = close((*s2)[i], u[i], tol);
        emit("LP.popRow_removes_last_pushed_row", ok2);

        // push A, push B, pop (B), keep A
        const size_t j = rng.below(n);
        lp.row.setZero(); lp.row[j] = 1.0; lp.pushRow(LP::Constraint::LessEqual, u[j] / 2.0);
        lp.row.setZero(); lp.row[j] = 1.0; lp.pushRow(rng.coin() ? LP::Constraint::LessEqual : LP::Constraint::Equal, 0.0);
        lp.popRow();
        auto s3 = lp.solve(n, &obj);
        const double e3 = cu - c[j] * u[j] / 2.0;
        bool ok3 = s3 && close(obj, e3, tol * (1 + e3));
        for (size_t i = 0; ok3 && i < n; ++i) ok3 = close((*s3)[i], i == j ? u[i] / 2.0 : u[i], tol);
        emit("LP.popRow_keeps_earlier_rows", ok3);

        // pop A too, push an Equal row, solve, pop it: back to the box
        lp.popRow();
        lp.row.setZero(); lp.row[j] = 1.0; lp.pushRow(LP::Constraint::Equal, u[j] / 4.0);
        auto s4 = lp.solve(n, &obj);
        const double e4 = cu - c[j] * u[j] * 0.75;
        bool ok4 = s4 && close(obj, e4, tol * (1 + e4)) && close((*s4)[j], u[j] / 4.0, tol);
        lp.popRow();
        auto s5 = lp.solve(n, &obj);
        ok4 = ok4 && s5 && close(obj, cu, tol * (1 + cu));
        for (size_t i = 0; ok4 && i < n; ++i) ok4 = close((*s5)[i], u[i], tol);
        emit("LP.push_pop_repeated_returns_to_same_lp", ok4);

        // same box built without addColumn / popRow gives the same optimum
        LP ref(n);
        for (size_t i = 0; i < n; ++i) ref.row[i] = c[i];
        ref.setObjective(true);
        for (size_t i = 0; i < n; ++i) { ref.row.setZero(); ref.row[i] = 1.0; ref.pushRow(LP::Constraint::LessEqual, u[i]); }
        double robj = 0;
        auto r = ref.solve(n, &robj);
        emit("LP.equals_lp_built_without_popped_rows", r && s5 && close(robj, obj, tol * (1 + cu)) && (*r - *s5).cwiseAbs().maxCoeff() <= tol);
    }
    // ---- B: column added AFTER rows exist ("previous rows are assumed to not need the new variable"), objective on the new column
    {
        const double a = (1 + rng.below(16)) / 4.0, b = (1 + rng.below(16)) / 4.0;
        const bool minimize = rng.coin();
        stat(minimize ? "lp_column_after_rows_min" : "lp_column_after_rows_max");
        const auto cons = minimize ? LP::Constraint::GreaterEqual : LP::Constraint::LessEqual;
        LP lp(1);
        lp.row[0] = 1.0; lp.pushRow(cons, a);
        lp.addColumn();
        bool ok = lp.row.size() == 2;
        lp.row[0] = 0.0; lp.row[1] = 1.0; lp.pushRow(cons, b);
        // a junk row that is popped again before solving
        lp.row[0] = 1.0; lp.row[1] = 1.0; lp.pushRow(LP::Constraint::Equal, minimize ? 1000.0 : 0.0);
        lp.popRow();
        lp.row[0] = 1.0; lp.row[1] = 1.0;
        lp.setObjective(!minimize);
        double obj = 0;
        auto s = lp.solve(2, &obj);
        ok = ok && s && close((*s)[0], a, tol) && close((*s)[1], b, tol) && close(obj, a + b, tol * (1 + a + b));
        emit("LP.addColumn_after_rows_new_variable_free_of_old_rows", ok);

        // setObjective(n, maximize) on the added column of a fresh LP: max x_1 s.t. x_1 <= b (x_0 <= a)
        LP lp2(1);
        lp2.row[0] = 1.0; lp2.pushRow(LP::Constraint::LessEqual, a);
        lp2.addColumn();
        lp2.row[0] = 0.0; lp2.row[1] = 1.0; lp2.pushRow(LP::Constraint::LessEqual, b);
        lp2.row[0] = 1.0; lp2.row[1] = 1.0; lp2.pushRow(LP::Constraint::LessEqual, 0.0);   // would force 0
        lp2.popRow();
        lp2.setObjective(1, true);
        auto s2 = lp2.solve(2, &obj);
        emit("LP.objective_on_added_column", s2 && close((*s2)[1], b, tol) && close(obj, b, tol * (1 + b)));
    }
}

// ---------------------------------------------------------------------------------------------- group 5
struct PlaneEntry { int tag; AIToolbox::Vector values; };

inline void g_delta_dominated(Rng & rng) {
    const size_t S = 2 + rng.below(2);
    const auto row = verif::dyadicRow(rng, S, 3, rng.coin(1, 3));
    AIToolbox::Point point(S); for (size_t s = 0; s < S; ++s) point[s] = row[s];
    AIToolbox::Hyperplane plane(S); for (size_t s = 0; s < S; ++s) plane[s] = dyq(rng);
    const size_t n = rng.coin(1, 8) ? 0 : 1 + rng.below(6);
    stat(n == 0 ? "deltadom_empty_range" : (S == 2 ? "deltadom_2d" : "deltadom_3d"));
    std::vector<AIToolbox::Hyperplane> planes(n, AIToolbox::Hyperplane(S));
    const bool allBelow = rng.coin(1, 6);
    for (auto & p : planes) {
        for (size_t s = 0; s < S; ++s) p[s] = allBelow ? plane[s] - (double)rng.below(9) / 4.0 : dyq(rng);
        if (rng.coin(1, 8)) p = plane;     // identical plane: never strictly higher
    }
    planes.shrink_to_fit();
    static const double deltas[] = {0.0, 0.125, 0.5, 1.0, 2.0};
    const double delta = deltas[rng.below(5)];

    // independent recomputation of the documented single pass
    auto dot = [&](const AIToolbox::Hyperplane & h) { double v = 0; for (size_t s = 0; s < S; ++s) v += point[s] * h[s]; return v; };
    size_t ref = n; const AIToolbox::Hyperplane * mp = &plane; double mv = dot(plane); bool ambiguous = false;
    for (size_t i = 0; i < n; ++i) {
        const double nv = dot(planes[i]);
        if (nv > mv) {
            double sq = 0; for (size_t s = 0; s < S; ++s) sq += (planes[i][s] - (*mp)[s]) * (planes[i][s] - (*mp)[s]);
            const double d = (nv - mv) / std::sqrt(sq);
            if (std::fabs(d - delta) < 1e-9) ambiguous = true;
            if (d > delta) { mv = nv; mp = &planes[i]; ref = i; }
        }
    }
    if (ambiguous) { stat("deltadom_borderline_skipped"); return; }

    const auto it = AIToolbox::findBestDeltaDominated(point, plane, delta, planes.cbegin(), planes.cend());
    const size_t got = (size_t)(it - planes.cbegin());
    bool ok = got == ref;
    if (got < n) ok = ok && dot(planes[got]) > dot(plane);
    if (allBelow) ok = ok && got == n;
    emit("findBestDeltaDominated.matches_single_pass_recomputation", ok);

    // with a projection (pointer to member), mutable iterators
    std::vector<PlaneEntry> entries; entries.reserve(n);
    for (size_t i = 0; i < n; ++i) entries.push_back(PlaneEntry{(int)i, planes[i]});
    const auto it2 = AIToolbox::findBestDeltaDominated(point, plane, delta, entries.begin(), entries.end(), &PlaneEntry::values);
    emit("findBestDeltaDominated.projection_gives_same_entry", (size_t)(it2 - entries.begin()) == ref);
}

// ---------------------------------------------------------------------------------------------- group 6
inline void g_optimistic(Rng & rng) {
    const size_t S = 2 + rng.below(2);
    stat(S == 2 ? "optimistic_2d" : "optimistic_3d");
    std::vector<AIToolbox::Point> pts; std::vector<double> vals;
    // the simplex corners are always known (so the LP is feasible and bounded), in a random position of the list
    for (size_t s = 0; s < S; ++s) { AIToolbox::Point e = AIToolbox::Point::Zero(S); e[s] = 1.0; pts.push_back(e); vals.push_back(dyq(rng)); }
    const size_t extra = rng.below(4);
    for (size_t k = 0; k < extra; ++k) {
        const auto r = verif::dyadicRow(rng, S, 3);
        AIToolbox::Point q(S); for (size_t s = 0; s < S; ++s) q[s] = r[s];
        const size_t at = rng.below(pts.size() + 1);
        pts.insert(pts.begin() + at, q); vals.insert(vals.begin() + at, dyq(rng));
    }
    pts.shrink_to_fit(); vals.shrink_to_fit();
    AIToolbox::Point p(S);
    { const auto r = verif::dyadicRow(rng, S, 4, rng.coin(1, 4)); for (size_t s = 0; s < S; ++s) p[s] = r[s]; }

    // dual: min sum l_i v_i, sum l_i pts_i = p, l >= 0; optimum at a basic solution = a nonsingular S-subset
    const size_t n = pts.size();
    double best = std::numeric_limits<double>::infinity();
    for (unsigned mask = 0; mask < (1u << n); ++mask) {
        if ((size_t)__builtin_popcount(mask) != S) continue;
        Eigen::MatrixXd M(S, S); Eigen::VectorXd v(S); size_t c = 0;
        for (size_t i = 0; i < n; ++i) if (mask >> i & 1) { M.col(c) = pts[i]; v[c] = vals[i]; ++c; }
        if (std::fabs(M.determinant()) < 1e-9) continue;
        const Eigen::VectorXd l = M.fullPivLu().solve(Eigen::VectorXd(p));
        if (l.minCoeff() < -1e-9) continue;
        best = std::min(best, l.dot(v));
    }
    const double got = AIToolbox::computeOptimisticValue(p, pts, vals);
    emit("computeOptimisticValue.equals_lower_envelope_of_known_points", std::isfinite(best) && close(got, best, 1e-6 * (1 + std::fabs(best))));

    // no known point at all: documented only through the implementation (returns without building an LP); require a finite value
    if (rng.coin(1, 4)) {
        const double z = AIToolbox::computeOptimisticValue(p, std::vector<AIToolbox::Point>{}, std::vector<double>{});
        emit("computeOptimisticValue.no_points_is_finite", std::isfinite(z));
    }
}

// ---------------------------------------------------------------------------------------------- group 7
// NOTE: start size >= 1 and no view access between a growing reserve() and the next view-rebuilding call:
// both are library defects, exercised in group 9.
inline void g_storage_vector(Rng & rng) {
    const size_t start = 1 + rng.below(4);
    const bool fromVector = rng.coin();
    stat(fromVector ? "storagevector_from_vector" : "storagevector_from_size");
    std::vector<double> m; size_t cap = start;
    std::unique_ptr<AIToolbox::StorageVector> sv;
    if (fromVector) {
        Vector init(start); for (size_t i = 0; i < start; ++i) { init[i] = dyq(rng); m.push_back(init[i]); }
        sv.reset(new AIToolbox::StorageVector(std::move(init)));
    } else sv.reset(new AIToolbox::StorageVector(start));
    auto & v = *sv;

    bool ok = true;
    auto same = [&]() {
        if ((size_t)v.vector.size() != m.size()) return false;
        for (size_t i = 0; i < m.size(); ++i) if (v.vector[i] != m[i]) return false;
        return true;
    };
    ok = ok && same();
    size_t grew = 0;
    auto push = [&]() { const double x = dyq(rng); if (m.size() == cap) { cap *= 2; ++grew; } v.push_back(x); m.push_back(x); };
    const int steps = 30 + (int)rng.below(20);
    for (int s = 0; s < steps && ok; ++s) {
        switch (rng.below(8)) {
            case 0: case 1: case 2: push(); break;
            case 3: { const size_t k = rng.coin(1, 6) ? m.size() : rng.below(std::min<size_t>(m.size(), 3) + 1); v.pop_back(k); m.resize(m.size() - k); break; }
            case 4: if (!m.empty()) { v.pop_back(); m.pop_back(); } break;
            case 5: {   // resize down or up (new elements are unspecified: write them through the view)
                const size_t nsz = rng.below(cap + 6), old = m.size();
                if (nsz > cap) cap = nsz;
                v.resize(nsz); m.resize(nsz);
                for (size_t i = old; i < nsz; ++i) { const double x = dyq(rng); v.vector[i] = x; m[i] = x; }
                break;
            }
            case 6: { const size_t r = rng.below(cap + 1); v.reserve(r); break; }            // within capacity: nothing changes
            default: {  // growing reserve, view rebuilt by resize(current size) before it is read again
                const size_t r = cap + 1 + rng.below(cap + 2); v.reserve(r); cap = r; v.resize(m.size()); break;
            }
        }
        ok = ok && same();
    }
    // pop to empty, refill past the capacity twice more, shrink with resize, grow with resize
    v.pop_back(m.size()); m.clear(); ok = ok && same();
    { const size_t target = 2 * cap + 1; while (m.size() < target) { push(); ok = ok && same(); } }
    v.resize(1); m.resize(1); ok = ok && same();
    v.resize(0); m.clear(); ok = ok && same();
    push(); ok = ok && same();
    emit("StorageVector.view_mirrors_std_vector_after_every_operation", ok);
    if (grew < 2) stat("storagevector_few_growths");
}

// ---------------------------------------------------------------------------------------------- group 8
inline void g_storage_matrix(Rng & rng) {
    const size_t start = 1 + rng.below(4), cols = 1 + rng.below(3);
    const bool fromMatrix = rng.coin();
    stat(fromMatrix ? "storagematrix_from_matrix" : "storagematrix_from_size");
    std::vector<std::vector<double>> m; size_t cap = start;
    std::unique_ptr<AIToolbox::StorageMatrix2D> sm;
    if (fromMatrix) {
        Matrix2D init(start, cols);
        for (size_t i = 0; i < start; ++i) { m.emplace_back(cols); for (size_t j = 0; j < cols; ++j) { init(i, j) = dyq(rng); m[i][j] = init(i, j); } }
        sm.reset(new AIToolbox::StorageMatrix2D(std::move(init)));
    } else sm.reset(new AIToolbox::StorageMatrix2D(start, cols));
    auto & v = *sm;

    Matrix2D other(3, cols); for (size_t i = 0; i < 3; ++i) for (size_t j = 0; j < cols; ++j) other(i, j) = dyq(rng);

    auto same = [&]() {
        if ((size_t)v.matrix.rows() != m.size() || (size_t)v.matrix.cols() != cols) return false;
        for (size_t i = 0; i < m.size(); ++i) for (size_t j = 0; j < cols; ++j) if (v.matrix(i, j) != m[i][j]) return false;
        return true;
    };
    bool ok = same();
    auto push = [&]() {
        if (m.size() == cap) cap *= 2;
        std::vector<double> r(cols);
        switch (rng.below(5)) {
            case 0: {   // uninitialised row, then written through the view
                v.push_back();
                for (size_t j = 0; j < cols; ++j) { r[j] = dyq(rng); v.matrix(v.matrix.rows() - 1, j) = r[j]; }
                break;
            }
            case 1: { Vector x(cols); for (size_t j = 0; j < cols; ++j) x[j] = r[j] = dyq(rng); v.push_back(x); break; }
            case 2: { Eigen::RowVectorXd x(cols); for (size_t j = 0; j < cols; ++j) x[j] = r[j] = dyq(rng); v.push_back(x); break; }
            case 3: { const size_t k = rng.below(3); for (size_t j = 0; j < cols; ++j) r[j] = other(k, j); v.push_back(other.row(k)); break; }
            default: { Vector x(cols); for (size_t j = 0; j < cols; ++j) { x[j] = dyq(rng); r[j] = 2.0 * x[j]; } v.push_back(2.0 * x); break; }
        }
        m.push_back(r);
    };
    const int steps = 30 + (int)rng.below(20);
    for (int s = 0; s < steps && ok; ++s) {
        switch (rng.below(8)) {
            case 0: case 1: case 2: push(); break;
            case 3: { const size_t k = rng.coin(1, 6) ? m.size() : rng.below(std::min<size_t>(m.size(), 3) + 1); v.pop_back(k); m.resize(m.size() - k); break; }
            case 4: if (!m.empty()) { v.pop_back(); m.pop_back(); } break;
            case 5: {
                const size_t nsz = rng.below(cap + 6), old = m.size();
                if (nsz > cap) cap = nsz;
                v.resize(nsz); m.resize(nsz, std::vector<double>(cols));
                for (size_t i = old; i < nsz; ++i) for (size_t j = 0; j < cols; ++j) { const double x = dyq(rng); v.matrix(i, j) = x; m[i][j] = x; }
                break;
            }
            case 6: { const size_t r = rng.below(cap + 1); v.reserve(r); break; }
            default: { const size_t r = cap + 1 + rng.below(cap + 2); v.reserve(r); cap = r; v.resize(m.size()); break; }
        }
        ok = ok && same();
    }
    v.pop_back(m.size()); m.clear(); ok = ok && same();
    { const size_t target = 2 * cap + 1; while (m.size() < target) { push(); ok = ok && same(); } }
    v.resize(1); m.resize(1); ok = ok && same();
    v.resize(0); m.clear(); ok = ok && same();
    push(); ok = ok && same();
    emit("StorageMatrix2D.view_mirrors_rows_after_every_operation", ok);
}

// ---------------------------------------------------------------------------------------------- group 9
// Calls that are valid by the documentation but currently abort (Eigen assertion) or are flagged by ASan.
inline void g_storage_defects(Rng & rng) {
    const size_t cols = 1 + rng.below(3);
    const size_t pushes = 1 + rng.below(4);
    std::vector<double> vals(pushes * cols); for (auto & x : vals) x = dyq(rng);
    stat("storage_zero_capacity_and_reserve");

    // startSize = 0 is a size like any other ("initial pre-reserved space"); push_back doubles 0 to 0
    emit("StorageVector.push_back_after_zero_start_size", isolated([&] {
        AIToolbox::StorageVector v(0);
        for (size_t i = 0; i < pushes; ++i) v.push_back(vals[i]);
        bool ok = (size_t)v.vector.size() == pushes;
        for (size_t i = 0; ok && i < pushes; ++i) ok = v.vector[i] == vals[i];
        return ok;
    }));
    emit("StorageVector.push_back_after_empty_vector_ctor", isolated([&] {
        AIToolbox::StorageVector v(Vector(0));
        for (size_t i = 0; i < pushes; ++i) v.push_back(vals[i]);
        bool ok = (size_t)v.vector.size() == pushes;
        for (size_t i = 0; ok && i < pushes; ++i) ok = v.vector[i] == vals[i];
        return ok;
    }));
    emit("StorageMatrix2D.push_back_row_after_zero_start_rows", isolated([&] {
        AIToolbox::StorageMatrix2D v(0, cols);
        for (size_t i = 0; i < pushes; ++i) { Vector r(cols); for (size_t j = 0; j < cols; ++j) r[j] = vals[i * cols + j]; v.push_back(r); }
        bool ok = (size_t)v.matrix.rows() == pushes && (size_t)v.matrix.cols() == cols;
        for (size_t i = 0; ok && i < pushes; ++i) for (size_t j = 0; j < cols; ++j) ok = ok && v.matrix(i, j) == vals[i * cols + j];
        return ok;
    }));
    emit("StorageMatrix2D.push_back_uninitialized_after_zero_row_matrix_ctor", isolated([&] {
        AIToolbox::StorageMatrix2D v(Matrix2D(0, cols));
        for (size_t i = 0; i < pushes; ++i) { v.push_back(); for (size_t j = 0; j < cols; ++j) v.matrix(i, j) = vals[i * cols + j]; }
        bool ok = (size_t)v.matrix.rows() == pushes;
        for (size_t i = 0; ok && i < pushes; ++i) for (size_t j = 0; j < cols; ++j) ok = ok && v.matrix(i, j) == vals[i * cols + j];
        return ok;
    }));
    // reserve(): "does not modify the view ... already stored data is maintained" — the view must stay readable
    const size_t start = 1 + rng.below(3);
    emit("StorageVector.view_readable_after_growing_reserve", isolated([&] {
        AIToolbox::StorageVector v(start + pushes);
        for (size_t i = 0; i < pushes; ++i) v.push_back(vals[i]);
        v.reserve(4 * (start + pushes) + 16);
        if (viewFreed(v.vector.data(), pushes)) return false;      // dangling view: the old storage was released by reserve()
        bool ok = (size_t)v.vector.size() == pushes;
        for (size_t i = 0; ok && i < pushes; ++i) ok = v.vector[i] == vals[i];
        return ok;
    }));
    emit("StorageMatrix2D.view_readable_after_growing_reserve", isolated([&] {
        AIToolbox::StorageMatrix2D v(start + pushes, cols);
        for (size_t i = 0; i < pushes; ++i) { Vector r(cols); for (size_t j = 0; j < cols; ++j) r[j] = vals[i * cols + j]; v.push_back(r); }
        v.reserve(4 * (start + pushes) + 16);
        if (viewFreed(v.matrix.data(), pushes * cols)) return false;
        bool ok = (size_t)v.matrix.rows() == pushes;
        for (size_t i = 0; ok && i < pushes; ++i) for (size_t j = 0; j < cols; ++j) ok = ok && v.matrix(i, j) == vals[i * cols + j];
        return ok;
    }));
}

} // namespace utils_detail

inline void api_utils(verif::Rng & rng, long idx) {
    using namespace utils_detail;
    AIToolbox::Seeder::setRootSeed((unsigned)rng.next());
    switch (idx % 10) {
        case 0: g_seeder_ceil_entropy(rng); break;
        case 1: g_statistics(rng); break;
        case 2: g_adam(rng); break;
        case 3: g_copy_indexmap(rng); break;
        case 4: g_lp(rng); break;
        case 5: g_delta_dominated(rng); break;
        case 6: g_optimistic(rng); break;
        case 7: g_storage_vector(rng); break;
        case 8: g_storage_matrix(rng); break;
        default: g_storage_defects(rng); break;
    }
}

} // namespace c10api
