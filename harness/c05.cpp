// C05 correspondence harness: belief-update helpers of include/AIToolbox/POMDP/Utils.hpp
// (makeSOSA, updateBelief(Unnormalized), updateBeliefPartial, updateBeliefPartial(Un)Normalized,
// beliefExpectedReward) on three model representations built from the SAME tables:
//   dense   = POMDP::Model<MDP::Model>              (Eigen branch, dense matrices)
//   sparse  = POMDP::SparseModel<MDP::SparseModel>  (Eigen branch, sparse matrices)
//   generic = a user-defined probability-query-only struct (triple-loop branch)
//
// Protocol (one line per op, numbers as exact tokens):
//   C05 upd <route> <exact> <sosa> S O | T_a (S*S, s-major) | Ob_a (S*O, s1-major) | R_a (S*S) | b (S)
//        | dense <block> | sparse <block> | generic <block> | usereigen <block> | usersparse <block> | pob P(o|b,a) for o = 0..O-1
//     route = tab  : dense/sparse built by the table constructors (sparse drops sub-threshold entries)
//             conv : dense = Model(UserModel), sparse = SparseModel(that dense model)  (converting constructors)
//             raw  : dense/sparse hold the supplied Eigen matrices as they are: NO_CHECK constructors (sparse matrices with explicit
//                    zeros, left uncompressed), default constructor + Eigen-matrix setters, or the default-constructed model itself
//     block = partial(S) reward(1) { unnorm(S) norm(S) punnorm(S) pnorm(S) [sosa(S*S) if <sosa>] } for o = 0..O-1
//     pob   = SparseModel::getObservationProbability(b, o, a) of the sparse model of the line
//   C05 traj <rep> S A O | T | Ob | b0 (S) | s0 n (a s1 o)*n | bel_t (S) for t = 1..n
//     a trajectory simulated by the model's own sampleSOR, the belief maintained by updateBelief  (rep = dense | sparse | sparseraw)
//   C05 tab <class> <route> S A O | T (A*S*S, a-major) | Ob (A*S*O, a-major)
//        | getTransitionProbability (A*S*S) | getTransitionFunction(a)(s,s1) | getObservationProbability (A*S*O) | getObservationFunction(a)(s1,o)
//   C05 accept <class> S A O | T | Ob | <1 = constructed, 0 = std::invalid_argument>      (class = dense | sparse, table constructors)
//   C05 hist <rep> <exact> S A O | T (A*S*S, a-major) | Ob (A*S*O, a-major) | b0 (S) | n a1 o1 .. an on
//        | { alpha_t(S) bel_t(S) } for t = 1..n | k P(o_t | b_{t-1}, a_t) for t = 1..k   (k = n on a SparseModel: its own getObservationProbability(b,o,a); else 0)
//   C05 inplace <fn> <rep> <exact> S O o | T_a | Ob_a | in (S) | out-of-place result (S) | result of the same call with bRet == &in (S)
//     fn = unnorm | update | partial | punnorm | pnorm  (the five pointer overloads)
//   C05 overload <component> <what>      (only emitted when two overloads of one helper disagree)
#include "common/verif.hpp"
#include <AIToolbox/Seeder.hpp>
#include <AIToolbox/MDP/Model.hpp>
#include <AIToolbox/MDP/SparseModel.hpp>
#include <AIToolbox/POMDP/Model.hpp>
#include <AIToolbox/POMDP/SparseModel.hpp>
#include <AIToolbox/POMDP/Utils.hpp>
#include <AIToolbox/POMDP/TypeTraits.hpp>

using namespace verif;
namespace AI = AIToolbox;
namespace PO = AIToolbox::POMDP;
using Table3 = std::vector<std::vector<std::vector<double>>>;

struct Tables {
    size_t S = 0, A = 0, O = 0;
    Table3 T;   // [s][a][s1]
    Table3 R;   // [s][a][s1]
    Table3 Ob;  // [s1][a][o]
    double discount = 0.5;
};

// A model that offers probability queries only: satisfies POMDP::IsModel, not IsModelEigen,
// so every helper instantiates its triple-loop branch.
struct UserModel {
    const Tables * t;
    size_t getS() const { return t->S; }
    size_t getA() const { return t->A; }
    size_t getO() const { return t->O; }
    double getDiscount() const { return t->discount; }
    double getTransitionProbability(size_t s, size_t a, size_t s1) const { return t->T[s][a][s1]; }
    double getExpectedReward(size_t s, size_t a, size_t s1) const { return t->R[s][a][s1]; }
    double getObservationProbability(size_t s1, size_t a, size_t o) const { return t->Ob[s1][a][o]; }
    bool isTerminal(size_t) const { return false; }
    std::tuple<size_t, double> sampleSR(size_t s, size_t a) const {
        for (size_t s1 = 0; s1 < t->S; ++s1) if (t->T[s][a][s1] > 0.0) return {s1, t->R[s][a][s1]};
        return {0, 0.0};
    }
    std::tuple<size_t, size_t, double> sampleSOR(size_t s, size_t a) const {
        auto [s1, r] = sampleSR(s, a);
        for (size_t o = 0; o < t->O; ++o) if (t->Ob[s1][a][o] > 0.0) return {s1, o, r};
        return {s1, 0, r};
    }
};
// A user-defined model that additionally exposes Eigen matrices — of another storage order
// (column-major) than the library's own row-major Matrix2D — so the Eigen branch is instantiated
// with matrix types the library did not choose.
struct UserEigenModel : UserModel {
    std::vector<Eigen::MatrixXd> Tm, Om;
    Eigen::MatrixXd Rm;
    explicit UserEigenModel(const Tables * tt) : UserModel{tt}, Tm(tt->A, Eigen::MatrixXd(tt->S, tt->S)), Om(tt->A, Eigen::MatrixXd(tt->S, tt->O)), Rm(tt->S, tt->A) {
        Rm.setZero();
        for (size_t a = 0; a < t->A; ++a) for (size_t s = 0; s < t->S; ++s) {
            for (size_t s1 = 0; s1 < t->S; ++s1) { Tm[a](s, s1) = t->T[s][a][s1]; Rm(s, a) += t->R[s][a][s1] * t->T[s][a][s1]; }
            for (size_t o = 0; o < t->O; ++o) Om[a](s, o) = t->Ob[s][a][o];
        }
    }
    const Eigen::MatrixXd & getTransitionFunction(size_t a) const { return Tm[a]; }
    const Eigen::MatrixXd & getObservationFunction(size_t a) const { return Om[a]; }
    const Eigen::MatrixXd & getRewardFunction() const { return Rm; }
};
// A user-defined model exposing column-major SPARSE Eigen matrices (the library's own sparse matrices are row-major):
// the Eigen branch instantiated with yet another set of kernels (sparse inner vectors are columns here, `col(o)` is a
// direct inner-vector view, `b^T * T` runs over columns).  Only non-zero entries are stored.
struct UserSparseModel : UserModel {
    using SpC = Eigen::SparseMatrix<double, Eigen::ColMajor>;
    std::vector<SpC> Tm, Om;
    SpC Rm;
    explicit UserSparseModel(const Tables * tt) : UserModel{tt}, Tm(tt->A, SpC(tt->S, tt->S)), Om(tt->A, SpC(tt->S, tt->O)), Rm(tt->S, tt->A) {
        Eigen::MatrixXd R = Eigen::MatrixXd::Zero(t->S, t->A);
        for (size_t a = 0; a < t->A; ++a) {
            for (size_t s1 = 0; s1 < t->S; ++s1) for (size_t s = 0; s < t->S; ++s) {
                if (t->T[s][a][s1] != 0.0) Tm[a].insert(s, s1) = t->T[s][a][s1];
                R(s, a) += t->R[s][a][s1] * t->T[s][a][s1];
            }
            for (size_t o = 0; o < t->O; ++o) for (size_t s = 0; s < t->S; ++s) if (t->Ob[s][a][o] != 0.0) Om[a].insert(s, o) = t->Ob[s][a][o];
            Tm[a].makeCompressed(); Om[a].makeCompressed();
        }
        // (row-by-row accumulation in s1 order, like UserEigenModel / MDP::Model::setRewardFunction)
        for (size_t a = 0; a < t->A; ++a) for (size_t s = 0; s < t->S; ++s) if (R(s, a) != 0.0) Rm.insert(s, a) = R(s, a);
        Rm.makeCompressed();
    }
    const SpC & getTransitionFunction(size_t a) const { return Tm[a]; }
    const SpC & getObservationFunction(size_t a) const { return Om[a]; }
    const SpC & getRewardFunction() const { return Rm; }
};
// Mixed storage, which the IsModelEigen concept allows as well: dense transitions with sparse observations, and the reverse
// (`sparseColumn.cwiseProduct(denseVector)`, `denseRow * sparse`, `sparse * diagonal` … — operator combinations the library's own models never produce).
struct UserMixedA : UserModel {      // dense T (column-major), sparse O (column-major)
    std::vector<Eigen::MatrixXd> Tm; std::vector<UserSparseModel::SpC> Om; Eigen::MatrixXd Rm;
    explicit UserMixedA(const Tables * tt) : UserModel{tt} {
        UserEigenModel d(tt); UserSparseModel sp(tt);
        Tm = d.Tm; Om = sp.Om; Rm = d.Rm;
    }
    const Eigen::MatrixXd & getTransitionFunction(size_t a) const { return Tm[a]; }
    const UserSparseModel::SpC & getObservationFunction(size_t a) const { return Om[a]; }
    const Eigen::MatrixXd & getRewardFunction() const { return Rm; }
};
struct UserMixedB : UserModel {      // sparse T (column-major), dense O (column-major)
    std::vector<UserSparseModel::SpC> Tm; std::vector<Eigen::MatrixXd> Om; Eigen::MatrixXd Rm;
    explicit UserMixedB(const Tables * tt) : UserModel{tt} {
        UserEigenModel d(tt); UserSparseModel sp(tt);
        Tm = sp.Tm; Om = d.Om; Rm = d.Rm;
    }
    const UserSparseModel::SpC & getTransitionFunction(size_t a) const { return Tm[a]; }
    const Eigen::MatrixXd & getObservationFunction(size_t a) const { return Om[a]; }
    const Eigen::MatrixXd & getRewardFunction() const { return Rm; }
};
static_assert(PO::IsModelEigen<UserMixedA> && PO::IsModelEigen<UserMixedB>, "mixed-storage user models must take the Eigen branch");
static_assert(PO::IsModelEigen<UserSparseModel>, "UserSparseModel must take the Eigen branch");
static_assert(PO::IsModelEigen<UserEigenModel>, "UserEigenModel must take the Eigen branch");
static_assert(PO::IsModel<UserModel>, "UserModel must satisfy POMDP::IsModel");
static_assert(!PO::IsModelEigen<UserModel>, "UserModel must take the generic branch");
using DenseM = PO::Model<AI::MDP::Model>;
using SparseM = PO::SparseModel<AI::MDP::SparseModel>;
struct SparseRejected {};
static_assert(PO::IsModelEigen<DenseM> && PO::IsModelEigen<SparseM>, "library models take the Eigen branch");

// ---------------------------------------------------------------- generators
enum RowKind { ROW_ANY, ROW_ONEHOT, ROW_SPARSE, ROW_DENSE };

// dyadic probability row of length n with denominator 2^bits
static std::vector<double> dyadicRow(Rng & rng, size_t n, unsigned bits, RowKind kind) {
    std::vector<double> r(n, 0.0);
    const uint64_t den = 1ull << bits;
    if (kind == ROW_ANY) kind = (RowKind)rng.range(1, 3);
    if (kind == ROW_ONEHOT || n == 1) { r[rng.below(n)] = 1.0; return r; }
    // choose a support
    std::vector<size_t> sup;
    for (size_t i = 0; i < n; ++i) if (kind == ROW_DENSE || rng.coin()) sup.push_back(i);
    if (sup.empty()) sup.push_back(rng.below(n));
    // random composition of den over the support (each support entry may still get 0 mass if kind is sparse)
    std::vector<uint64_t> cuts;
    for (size_t i = 0; i + 1 < sup.size(); ++i) cuts.push_back(rng.below(den + 1));
    cuts.push_back(0); cuts.push_back(den);
    std::sort(cuts.begin(), cuts.end());
    for (size_t i = 0; i < sup.size(); ++i) r[sup[i]] = (double)(cuts[i + 1] - cuts[i]) / (double)den;
    if (kind == ROW_DENSE) {
        // make every entry positive: move one unit from the largest to each zero entry
        for (size_t i = 0; i < n; ++i) if (r[i] == 0.0) {
            size_t big = 0; for (size_t j = 1; j < n; ++j) if (r[j] > r[big]) big = j;
            if (r[big] * den >= 2) { r[big] -= 1.0 / den; r[i] += 1.0 / den; }
        }
    }
    return r;
}

// non-dyadic row: weights / sum, computed in double (sum is 1 up to rounding)
static std::vector<double> uglyRow(Rng & rng, size_t n) {
    static const double ws[] = {0, 0, 1, 1, 2, 3, 5, 7, 10, 1e-3, 1e-5};
    std::vector<double> r(n); double sum = 0;
    for (auto & x : r) { x = ws[rng.below(sizeof ws / sizeof *ws)]; sum += x; }
    if (sum == 0) { r[rng.below(n)] = 1; sum = 1; }
    for (auto & x : r) x /= sum;
    // the library accepts a row whose entries sum to 1 within 1e-6: renormalise once more so the rounding residue is tiny
    double s2 = 0; for (auto x : r) s2 += x;
    for (auto & x : r) x /= s2;
    return r;
}

// a dyadic row carrying one entry below the sparse storage threshold (2^-21 < 1e-6): dense keeps it, sparse drops it
static std::vector<double> tinyRow(Rng & rng, size_t n) {
    std::vector<double> r(n, 0.0);
    if (n < 2) { r[0] = 1.0; return r; }
    size_t i = rng.below(n), j = (i + 1 + rng.below(n - 1)) % n;
    const double eps = std::ldexp(1.0, -21);
    r[i] = eps; r[j] = 1.0 - eps;
    if (n > 2 && rng.coin()) { size_t k = 0; while (k == i || k == j) ++k; r[j] = 0.5 - eps; r[k] = 0.5; }
    return r;
}

enum Stream { ST_DYADIC, ST_UGLY, ST_TINY, ST_NEAR };

static Tables makeTables(Rng & rng, size_t S, size_t A, size_t O, Stream st) {
    Tables t; t.S = S; t.A = A; t.O = O;
    t.T.assign(S, std::vector<std::vector<double>>(A));
    t.R.assign(S, std::vector<std::vector<double>>(A, std::vector<double>(S, 0.0)));
    t.Ob.assign(S, std::vector<std::vector<double>>(A));
    static const double discs[] = {0.5, 0.75, 0.875, 1.0};
    t.discount = discs[rng.below(4)];
    // per action flavour: 0 mixed rows, 1 deterministic transitions, 2 fully dense, 3 an observation nobody emits
    for (size_t a = 0; a < A; ++a) {
        int flavour = (int)rng.below(6);   // 5: deterministic transitions AND observations
        size_t deadObs = rng.below(O);
        for (size_t s = 0; s < S; ++s) {
            RowKind k = (flavour == 1 || flavour == 5) ? ROW_ONEHOT : flavour == 2 ? ROW_DENSE : ROW_ANY;
            if (st == ST_UGLY && rng.coin(2, 3)) t.T[s][a] = uglyRow(rng, S);
            else if (st == ST_TINY && rng.coin(1, 3)) t.T[s][a] = tinyRow(rng, S);
            else t.T[s][a] = dyadicRow(rng, S, 6, k);
            RowKind ko = flavour == 2 ? ROW_DENSE : flavour == 5 ? ROW_ONEHOT : ROW_ANY;
            if (st == ST_UGLY && rng.coin(2, 3)) t.Ob[s][a] = uglyRow(rng, O);
            else if (st == ST_TINY && rng.coin(1, 3)) t.Ob[s][a] = tinyRow(rng, O);
            else t.Ob[s][a] = dyadicRow(rng, O, 6, ko);
            if (flavour == 3 && O > 1 && st != ST_UGLY) {
                // move the mass of deadObs elsewhere: this observation has probability zero under action a
                double m = t.Ob[s][a][deadObs]; t.Ob[s][a][deadObs] = 0.0; t.Ob[s][a][(deadObs + 1) % O] += m;
            }
            for (size_t s1 = 0; s1 < S; ++s1)
                t.R[s][a][s1] = st == ST_UGLY ? (double)rng.range(-40, 40) * 0.1 : (double)rng.range(-16, 16) * 0.25;
        }
    }
    return t;
}

// the tables of a default-constructed model: identity transitions, observation 0 certain, no rewards
static Tables defaultTables(size_t S, size_t A, size_t O) {
    Tables t; t.S = S; t.A = A; t.O = O; t.discount = 0.5;
    t.T.assign(S, std::vector<std::vector<double>>(A, std::vector<double>(S, 0.0)));
    t.R = t.T;
    t.Ob.assign(S, std::vector<std::vector<double>>(A, std::vector<double>(O, 0.0)));
    for (size_t s = 0; s < S; ++s) for (size_t a = 0; a < A; ++a) { t.T[s][a][s] = 1.0; t.Ob[s][a][0] = 1.0; }
    return t;
}

// near-valid tables: push a few rows of a dyadic model to the edges of what the constructors accept
// (row sums 1 +- d around the tolerance 1e-6, slightly negative entries, entries at/below the sparse storage
// threshold, MANY tiny successors whose total mass is around the tolerance).  All values stay dyadic.
static void perturb(Rng & rng, Tables & t) {
    const int n = 1 + (int)rng.below(3);
    for (int k = 0; k < n; ++k) {
        const bool onT = rng.coin();
        const size_t s = rng.below(t.S), a = rng.below(t.A);
        auto & row = onT ? t.T[s][a] : t.Ob[s][a];
        size_t big = 0; for (size_t j = 1; j < row.size(); ++j) if (row[j] > row[big]) big = j;
        const int kind = (int)rng.below(7);
        static const int up[] = {21, 20, 19, 18};
        std::printf("#stat perturb_kind_%d 1\n", kind);
        if (kind == 0) row[big] += std::ldexp(1.0, -up[rng.below(4)]);
        else if (kind == 1) row[big] -= std::ldexp(1.0, -up[rng.below(4)]);
        else if (kind == 2 && row.size() > 1) {
            static const double ds[] = {0x1p-30, 0x1p-21, 0.25};
            const double d = ds[rng.below(3)];
            const size_t j = (big + 1 + rng.below(row.size() - 1)) % row.size();
            row[big] += row[j] + d; row[j] = -d;
        } else if (kind == 3 && row.size() > 1) {
            static const int es[] = {26, 24, 21};
            const double e = std::ldexp(1.0, -es[rng.below(3)]);
            size_t cnt = 0, want = 1 + rng.below(row.size() - 1);
            for (size_t j = 0; j < row.size() && cnt < want; ++j) if (j != big && row[j] == 0.0) { row[j] = e; row[big] -= e; ++cnt; }
            std::printf("#stat tiny_successors_%s 1\n", cnt == 0 ? "0" : cnt < 3 ? "1-2" : cnt < 17 ? "3-16" : cnt < 68 ? "17-67" : "68+");
        } else if (kind == 4 && row.size() > 1) {
            const size_t j = (big + 1 + rng.below(row.size() - 1)) % row.size();
            row[big] += row[j] - 0x1p-20; row[j] = 0x1p-20;
        }
        else if (kind == 6 && row.size() > 1) {
            // an entry just ABOVE the storage threshold (2^-19 = 1.9e-6 > 1e-6: every container must keep it) in a row summing to
            // 1 + 2^-20: a container that dropped it would still see a row within the tolerance (1 + 2^-20 - 2^-19 = 1 - 2^-20)
            const size_t j = (big + 1 + rng.below(row.size() - 1)) % row.size();
            row[big] += row[j] - 0x1p-19 + 0x1p-20; row[j] = 0x1p-19;
        }
        // kind 5: leave the row alone
    }
}

static AI::Vector makeBelief(Rng & rng, size_t S, Stream st, int shape) {
    AI::Vector b(S); b.setZero();
    if (shape == 0 || S == 1) { b[rng.below(S)] = 1.0; return b; }                     // corner
    if (shape == 3) {
        // a belief with entries far below every tolerance of the library (2^-21 < 1e-6, 2^-30): they still count
        std::vector<double> r = dyadicRow(rng, S, 8, ROW_SPARSE);
        size_t big = 0; for (size_t j = 1; j < S; ++j) if (r[j] > r[big]) big = j;
        size_t j = (big + 1 + rng.below(S - 1)) % S;
        const double e = rng.coin() ? 0x1p-21 : 0x1p-30;
        r[big] += r[j] - e; r[j] = e;
        for (size_t s = 0; s < S; ++s) b[s] = r[s];
        return b;
    }
    std::vector<double> r;
    if (st == ST_UGLY) r = uglyRow(rng, S);
    else r = dyadicRow(rng, S, 8, shape == 1 ? ROW_SPARSE : ROW_DENSE);                // face / interior
    for (size_t s = 0; s < S; ++s) b[s] = r[s];
    return b;
}

// ---------------------------------------------------------------- emitting
static bool sameBits(const AI::Vector & x, const AI::Vector & y) {
    if (x.size() != y.size()) return false;
    for (long i = 0; i < x.size(); ++i) {
        if (std::isnan(x[i]) && std::isnan(y[i])) continue;
        if (!(x[i] == y[i])) return false;
    }
    return true;
}

static void overloadMismatch(const char * fn, const char * rep, const char * what) {
    Line l; l << "C05" << "overload" << (std::string(fn) + "/" + rep) << what; l.emit();
}

static void putVec(Line & l, const AI::Vector & v) { for (long i = 0; i < v.size(); ++i) l << (double)v[i]; }

template <class M>
static void emitBlock(Line & l, const M & m, const char * rep, const Tables & t, const AI::Vector & b, size_t a, bool withSosa) {
    const size_t S = t.S, O = t.O;
    // predict step, both overloads
    AI::Vector partial = PO::updateBeliefPartial(m, b, a);
    { AI::Vector p2 = AI::Vector::Constant(S, std::nan("")); PO::updateBeliefPartial(m, b, a, &p2); if (!sameBits(partial, p2)) overloadMismatch("updateBeliefPartial", rep, "pointer_vs_value"); }
    putVec(l, partial);
    l << PO::beliefExpectedReward(m, b, a);
    using SosaT = decltype(PO::makeSOSA(m));
    std::unique_ptr<SosaT> sosa; if (withSosa) sosa.reset(new SosaT(PO::makeSOSA(m)));
    for (size_t o = 0; o < O; ++o) {
        AI::Vector un = PO::updateBeliefUnnormalized(m, b, a, o);
        { AI::Vector x = AI::Vector::Constant(S, std::nan("")); PO::updateBeliefUnnormalized(m, b, a, o, &x); if (!sameBits(un, x)) overloadMismatch("updateBeliefUnnormalized", rep, "pointer_vs_value"); }
        AI::Vector no = PO::updateBelief(m, b, a, o);
        { AI::Vector x = AI::Vector::Constant(S, std::nan("")); PO::updateBelief(m, b, a, o, &x); if (!sameBits(no, x)) overloadMismatch("updateBelief", rep, "pointer_vs_value"); }
        AI::Vector pun = PO::updateBeliefPartialUnnormalized(m, partial, a, o);
        { AI::Vector x = AI::Vector::Constant(S, std::nan("")); PO::updateBeliefPartialUnnormalized(m, partial, a, o, &x); if (!sameBits(pun, x)) overloadMismatch("updateBeliefPartialUnnormalized", rep, "pointer_vs_value"); }
        AI::Vector pno = PO::updateBeliefPartialNormalized(m, partial, a, o);
        { AI::Vector x = AI::Vector::Constant(S, std::nan("")); PO::updateBeliefPartialNormalized(m, partial, a, o, &x); if (!sameBits(pno, x)) overloadMismatch("updateBeliefPartialNormalized", rep, "pointer_vs_value"); }
        putVec(l, un); putVec(l, no); putVec(l, pun); putVec(l, pno);
        if (withSosa) for (size_t s = 0; s < S; ++s) for (size_t s1 = 0; s1 < S; ++s1) l << (double)(*sosa)[a][o].coeff(s, s1);
    }
}

enum Route { RT_TABLE, RT_NOCHECK, RT_SETTERS, RT_DEFAULT };

// Eigen forms of the tables.  The sparse matrices may carry explicit zeros and stay uncompressed (insert() without makeCompressed()).
static AI::Matrix3D denseT(const Tables & t) {
    AI::Matrix3D m(t.A, AI::Matrix2D(t.S, t.S));
    for (size_t a = 0; a < t.A; ++a) for (size_t s = 0; s < t.S; ++s) for (size_t s1 = 0; s1 < t.S; ++s1) m[a](s, s1) = t.T[s][a][s1];
    return m;
}
static AI::Matrix3D denseOb(const Tables & t) {
    AI::Matrix3D m(t.A, AI::Matrix2D(t.S, t.O));
    for (size_t a = 0; a < t.A; ++a) for (size_t s = 0; s < t.S; ++s) for (size_t o = 0; o < t.O; ++o) m[a](s, o) = t.Ob[s][a][o];
    return m;
}
static AI::Matrix2D denseR(const Tables & t) {
    AI::Matrix2D m(t.S, t.A); m.setZero();
    for (size_t a = 0; a < t.A; ++a) for (size_t s = 0; s < t.S; ++s) for (size_t s1 = 0; s1 < t.S; ++s1) m(s, a) += t.R[s][a][s1] * t.T[s][a][s1];
    return m;
}
static AI::SparseMatrix2D toSparse(const AI::Matrix2D & d, int zeros, bool compress) {
    // zeros: 0 = none stored, 1 = every other zero stored explicitly, 2 = all zeros stored
    AI::SparseMatrix2D m(d.rows(), d.cols());
    size_t k = 0;
    for (long i = 0; i < d.rows(); ++i) for (long j = 0; j < d.cols(); ++j) {
        if (d(i, j) != 0.0) m.insert(i, j) = d(i, j);
        else if (zeros == 2 || (zeros == 1 && (k++ % 2 == 0))) m.insert(i, j) = 0.0;
    }
    if (compress) m.makeCompressed();
    return m;
}
static AI::SparseMatrix3D toSparse3(const AI::Matrix3D & d, int zeros, bool compress) {
    AI::SparseMatrix3D m; for (auto & x : d) m.push_back(toSparse(x, zeros, compress)); return m;
}

struct Models {
    Tables t;
    Route route = RT_TABLE;
    std::unique_ptr<DenseM> dense, denseFromUser;
    std::unique_ptr<SparseM> sparse, sparseFromDense;
    UserModel user;
    std::unique_ptr<UserEigenModel> userEigen;
    std::unique_ptr<UserSparseModel> userSparse;
    std::unique_ptr<UserMixedA> userMixedA;
    std::unique_ptr<UserMixedB> userMixedB;
    int eigenVariant = 0;      // which user model fills the `usereigen` block: 0 dense column-major, 1 dense T + sparse O, 2 sparse T + dense O
    explicit Models(Tables tt, Route rt = RT_TABLE, int zeros = 0, bool compress = true) : t(std::move(tt)), route(rt) {
        if (route == RT_TABLE) {
        dense.reset(new DenseM(t.O, t.Ob, t.S, t.A, t.T, t.R, t.discount));
        // the sparse setters validate what they actually store: a table whose dropped sub-threshold entries push a row
        // outside the tolerance is (legitimately, property C06) rejected — such a case has no sparse path to compare
        try { sparse.reset(new SparseM(t.O, t.Ob, t.S, t.A, t.T, t.R, t.discount)); }
        catch (const std::invalid_argument &) { std::printf("#stat sparse_ctor_rejected 1\n"); throw SparseRejected(); }
        } else if (route == RT_NOCHECK) {
            dense.reset(new DenseM(AI::NO_CHECK, t.O, denseOb(t), AI::NO_CHECK, t.S, t.A, denseT(t), denseR(t), t.discount));
            sparse.reset(new SparseM(AI::NO_CHECK, t.O, toSparse3(denseOb(t), zeros, compress), AI::NO_CHECK, t.S, t.A,
                                     toSparse3(denseT(t), zeros, compress), toSparse(denseR(t), zeros, compress), t.discount));
            std::printf("#stat route_nocheck 1\n#stat sparse_explicit_zeros_%d 1\n#stat sparse_%s 1\n", zeros, compress ? "compressed" : "uncompressed");
        } else if (route == RT_SETTERS) {
            dense.reset(new DenseM(t.O, t.S, t.A, t.discount));
            dense->setTransitionFunction(denseT(t)); dense->setRewardFunction(denseR(t)); dense->setObservationFunction(denseOb(t));
            sparse.reset(new SparseM(t.O, t.S, t.A, t.discount));
            sparse->setTransitionFunction(toSparse3(denseT(t), zeros, compress)); sparse->setRewardFunction(toSparse(denseR(t), zeros, compress));
            sparse->setObservationFunction(toSparse3(denseOb(t), zeros, compress));
            std::printf("#stat route_setters 1\n#stat sparse_explicit_zeros_%d 1\n#stat sparse_%s 1\n", zeros, compress ? "compressed" : "uncompressed");
        } else {
            // the tables in `t` must be those of a default-constructed model (identity transitions, observation 0 certain)
            dense.reset(new DenseM(t.O, t.S, t.A, t.discount));
            sparse.reset(new SparseM(t.O, t.S, t.A, t.discount));
            std::printf("#stat route_default 1\n");
        }
        user.t = &t;
        userEigen.reset(new UserEigenModel(&t));
        userSparse.reset(new UserSparseModel(&t));
        userMixedA.reset(new UserMixedA(&t));
        userMixedB.reset(new UserMixedB(&t));
        if (route != RT_TABLE) return;
        // the converting constructors: user-defined -> dense -> sparse
        denseFromUser.reset(new DenseM(user));
        // SparseModel(const M&) re-validates the rows AFTER dropping sub-threshold entries and may reject
        // a model the dense class accepted (model-validity matter, property C06): then no converted lines.
        try { sparseFromDense.reset(new SparseM(*denseFromUser)); }
        catch (const std::invalid_argument &) { std::printf("#stat conv_sparse_rejected 1\n"); }
    }
    Models(const Models &) = delete;
};

static void emitUpd(const Models & M, const AI::Vector & b, size_t a, bool exact, bool conv = false) {
    const Tables & t = M.t;
    if (conv && !M.sparseFromDense) conv = false;
    const bool withSosa = t.S <= 12;
    const SparseM & spm = conv ? *M.sparseFromDense : *M.sparse;
    Line l; l << "C05" << "upd" << (M.route != RT_TABLE ? "raw" : conv ? "conv" : "tab") << exact << withSosa << t.S << t.O << "|";
    for (size_t s = 0; s < t.S; ++s) for (size_t s1 = 0; s1 < t.S; ++s1) l << t.T[s][a][s1];
    l << "|";
    for (size_t s1 = 0; s1 < t.S; ++s1) for (size_t o = 0; o < t.O; ++o) l << t.Ob[s1][a][o];
    l << "|";
    for (size_t s = 0; s < t.S; ++s) for (size_t s1 = 0; s1 < t.S; ++s1) l << t.R[s][a][s1];
    l << "|";
    putVec(l, b);
    l << "|" << "dense";   emitBlock(l, conv ? *M.denseFromUser : *M.dense, "dense", t, b, a, withSosa);
    l << "|" << "sparse";  emitBlock(l, spm, "sparse", t, b, a, withSosa);
    l << "|" << "generic"; emitBlock(l, M.user, "generic", t, b, a, withSosa);
    l << "|" << "usereigen";
    if (M.eigenVariant == 1) emitBlock(l, *M.userMixedA, "usereigen", t, b, a, withSosa);
    else if (M.eigenVariant == 2) emitBlock(l, *M.userMixedB, "usereigen", t, b, a, withSosa);
    else emitBlock(l, *M.userEigen, "usereigen", t, b, a, withSosa);
    l << "|" << "usersparse"; emitBlock(l, *M.userSparse, "usersparse", t, b, a, withSosa);
    // the library's own P(o | b, a) (note the argument order: belief, observation, action)
    l << "|" << "pob";
    for (size_t o = 0; o < t.O; ++o) l << spm.getObservationProbability(b, o, a);
    l.emit();
}

static void putTables(Line & l, const Tables & t) {
    for (size_t a = 0; a < t.A; ++a) for (size_t s = 0; s < t.S; ++s) for (size_t s1 = 0; s1 < t.S; ++s1) l << t.T[s][a][s1];
    l << "|";
    for (size_t a = 0; a < t.A; ++a) for (size_t s1 = 0; s1 < t.S; ++s1) for (size_t o = 0; o < t.O; ++o) l << t.Ob[s1][a][o];
}

// what a constructed model answers when asked for its tables, through every getter the belief helpers read
template <class M>
static void emitTab(const M & m, const char * cls, const char * route, const Tables & t) {
    Line l; l << "C05" << "tab" << cls << route << t.S << t.A << t.O << "|";
    putTables(l, t);
    l << "|";
    for (size_t a = 0; a < t.A; ++a) for (size_t s = 0; s < t.S; ++s) for (size_t s1 = 0; s1 < t.S; ++s1) l << m.getTransitionProbability(s, a, s1);
    l << "|";
    for (size_t a = 0; a < t.A; ++a) for (size_t s = 0; s < t.S; ++s) for (size_t s1 = 0; s1 < t.S; ++s1) l << (double)m.getTransitionFunction(a).coeff(s, s1);
    l << "|";
    for (size_t a = 0; a < t.A; ++a) for (size_t s1 = 0; s1 < t.S; ++s1) for (size_t o = 0; o < t.O; ++o) l << m.getObservationProbability(s1, a, o);
    l << "|";
    for (size_t a = 0; a < t.A; ++a) for (size_t s1 = 0; s1 < t.S; ++s1) for (size_t o = 0; o < t.O; ++o) l << (double)m.getObservationFunction(a).coeff(s1, o);
    l.emit();
}
static void emitTabs(const Models & M) {
    const char * r = M.route == RT_TABLE ? "tab" : "raw";
    emitTab(*M.dense, "dense", r, M.t); emitTab(*M.sparse, "sparse", r, M.t);
    if (M.denseFromUser) emitTab(*M.denseFromUser, "dense", "conv", M.t);
    if (M.sparseFromDense) emitTab(*M.sparseFromDense, "sparse", "conv", M.t);
}

// does the table constructor accept these tables?  (std::invalid_argument = rejected; anything else propagates)
template <class M>
static bool emitAccept(const char * cls, const Tables & t);

// the same question for the Eigen-matrix setters (validated with isProbability(const Matrix3D &) / (const SparseMatrix3D &))
static void emitAcceptSetters(const Tables & t, int zeros, bool compress) {
    bool okD = true, okS = true;
    try { DenseM d(t.O, t.S, t.A, t.discount); d.setTransitionFunction(denseT(t)); d.setObservationFunction(denseOb(t)); }
    catch (const std::invalid_argument &) { okD = false; }
    try { SparseM d(t.O, t.S, t.A, t.discount); d.setTransitionFunction(toSparse3(denseT(t), zeros, compress)); d.setObservationFunction(toSparse3(denseOb(t), zeros, compress)); }
    catch (const std::invalid_argument &) { okS = false; }
    { Line l; l << "C05" << "accept" << "denseM" << t.S << t.A << t.O << "|"; putTables(l, t); l << "|" << okD; l.emit(); }
#ifdef C05_NO_SPARSE_SIGN
    const char * spCls = "sparseM0";   // finding C05-2 (negative entries accepted by the sparse Eigen-matrix setters) not judged
#else
    const char * spCls = "sparseM";
#endif
    { Line l; l << "C05" << "accept" << spCls << t.S << t.A << t.O << "|"; putTables(l, t); l << "|" << okS; l.emit(); }
    std::printf("#stat denseM_setters_%s 1\n#stat sparseM_setters_%s 1\n", okD ? "accepted" : "rejected", okS ? "accepted" : "rejected");
}

// … and for the converting constructors Model(UserModel) and SparseModel(that Model)
static void emitAcceptConv(const Tables & t) {
    UserModel u; u.t = &t;
    std::unique_ptr<DenseM> d;
    try { d.reset(new DenseM(u)); } catch (const std::invalid_argument &) {}
    { Line l; l << "C05" << "accept" << "denseC" << t.S << t.A << t.O << "|"; putTables(l, t); l << "|" << (bool)d; l.emit(); }
    std::printf("#stat denseC_conv_%s 1\n", d ? "accepted" : "rejected");
    if (!d) return;
    bool okS = true;
    try { SparseM sp(*d); } catch (const std::invalid_argument &) { okS = false; }
    { Line l; l << "C05" << "accept" << "sparseC" << t.S << t.A << t.O << "|"; putTables(l, t); l << "|" << okS; l.emit(); }
    std::printf("#stat sparseC_conv_%s 1\n", okS ? "accepted" : "rejected");
}

template <class M>
static bool emitAccept(const char * cls, const Tables & t) {
    bool ok = true;
    try { M m(t.O, t.Ob, t.S, t.A, t.T, t.R, t.discount); } catch (const std::invalid_argument &) { ok = false; }
    Line l; l << "C05" << "accept" << cls << t.S << t.A << t.O << "|";
    putTables(l, t);
    l << "|" << ok;
    l.emit();
    std::printf("#stat %s_ctor_%s 1\n", cls, ok ? "accepted" : "rejected");
    return ok;
}

template <class M>
static void emitHist(const M & m, const char * rep, const Tables & t, const AI::Vector & b0, Rng & rng, size_t n, bool exact) {
    std::vector<size_t> as, os;
    std::vector<AI::Vector> alphas, bels;
    std::vector<double> pobs;      // the model's own P(o_t | b_{t-1}, a_t), where it offers one (SparseModel)
    AI::Vector alpha = b0, bel = b0;
    for (size_t k = 0; k < n; ++k) {
        size_t a = rng.below(t.A);
        // pick an observation of positive probability under the current (unnormalised) forward vector
        std::vector<size_t> pos;
        for (size_t o = 0; o < t.O; ++o) if (PO::updateBeliefUnnormalized(m, alpha, a, o).sum() > 0.0) pos.push_back(o);
        if (pos.empty()) break;
        size_t o = rng.pick(pos);
        alpha = PO::updateBeliefUnnormalized(m, alpha, a, o);
        if constexpr (requires { m.getObservationProbability(bel, o, a); }) pobs.push_back(m.getObservationProbability(bel, o, a));
        bel = PO::updateBelief(m, bel, a, o);
        as.push_back(a); os.push_back(o); alphas.push_back(alpha); bels.push_back(bel);
    }
    Line l; l << "C05" << "hist" << rep << exact << t.S << t.A << t.O << "|";
    for (size_t a = 0; a < t.A; ++a) for (size_t s = 0; s < t.S; ++s) for (size_t s1 = 0; s1 < t.S; ++s1) l << t.T[s][a][s1];
    l << "|";
    for (size_t a = 0; a < t.A; ++a) for (size_t s1 = 0; s1 < t.S; ++s1) for (size_t o = 0; o < t.O; ++o) l << t.Ob[s1][a][o];
    l << "|";
    putVec(l, b0);
    l << "|" << (size_t)as.size();
    for (size_t k = 0; k < as.size(); ++k) l << as[k] << os[k];
    l << "|";
    for (size_t k = 0; k < as.size(); ++k) { putVec(l, alphas[k]); putVec(l, bels[k]); }
    l << "|" << (size_t)pobs.size();
    for (double p : pobs) l << p;
    l.emit();
}

// the model simulates (sampleSOR), the filter follows (updateBelief): the true state must never get probability zero
template <class M>
static void emitTraj(const M & m, const char * rep, const Tables & t, const AI::Vector & b0, Rng & rng, size_t n) {
    std::vector<size_t> sup;
    for (size_t s = 0; s < t.S; ++s) if (b0[s] > 0.0) sup.push_back(s);
    size_t s = rng.pick(sup);
    const size_t s0 = s;
    std::vector<size_t> as, s1s, os; std::vector<AI::Vector> bels;
    AI::Vector bel = b0;
    for (size_t k = 0; k < n; ++k) {
        const size_t a = rng.below(t.A);
        const auto [s1, o, r] = m.sampleSOR(s, a); (void)r;
        bel = PO::updateBelief(m, bel, a, o);
        as.push_back(a); s1s.push_back(s1); os.push_back(o); bels.push_back(bel);
        s = s1;
        bool fin = true; for (long i = 0; i < bel.size(); ++i) if (!std::isfinite(bel[i])) fin = false;
        if (!fin) break;       // reported; nothing sensible to feed into the next step
    }
    Line l; l << "C05" << "traj" << rep << t.S << t.A << t.O << "|";
    putTables(l, t);
    l << "|"; putVec(l, b0);
    l << "|" << s0 << (size_t)as.size();
    for (size_t k = 0; k < as.size(); ++k) l << as[k] << s1s[k] << os[k];
    l << "|";
    for (auto & b : bels) putVec(l, b);
    l.emit();
}

// in-place use of the pointer overloads (output vector == input vector)
static void inplaceLine(const char * fn, const char * rep, const Tables & t, size_t a, size_t o, bool exact,
                        const AI::Vector & in, const AI::Vector & out, const AI::Vector & inpl) {
    Line l; l << "C05" << "inplace" << fn << rep << exact << t.S << t.O << o << "|";
    for (size_t s = 0; s < t.S; ++s) for (size_t s1 = 0; s1 < t.S; ++s1) l << t.T[s][a][s1];
    l << "|";
    for (size_t s1 = 0; s1 < t.S; ++s1) for (size_t oo = 0; oo < t.O; ++oo) l << t.Ob[s1][a][oo];
    l << "|"; putVec(l, in); l << "|"; putVec(l, out); l << "|"; putVec(l, inpl);
    l.emit();
}

template <class M>
static void emitInPlace(const M & m, const char * rep, const Tables & t, const AI::Vector & b, size_t a, size_t o, bool exact) {
    const AI::Vector un = PO::updateBeliefUnnormalized(m, b, a, o);
    const AI::Vector no = PO::updateBelief(m, b, a, o);
    const AI::Vector pa = PO::updateBeliefPartial(m, b, a);
    const AI::Vector pun = PO::updateBeliefPartialUnnormalized(m, pa, a, o);
    const AI::Vector pno = PO::updateBeliefPartialNormalized(m, pa, a, o);
    AI::Vector x;
    x = b;  PO::updateBeliefUnnormalized(m, x, a, o, &x);        inplaceLine("unnorm", rep, t, a, o, exact, b, un, x);
    x = b;  PO::updateBelief(m, x, a, o, &x);                    inplaceLine("update", rep, t, a, o, exact, b, no, x);
    x = b;  PO::updateBeliefPartial(m, x, a, &x);                inplaceLine("partial", rep, t, a, o, exact, b, pa, x);
    x = pa; PO::updateBeliefPartialUnnormalized(m, x, a, o, &x); inplaceLine("punnorm", rep, t, a, o, exact, pa, pun, x);
    x = pa; PO::updateBeliefPartialNormalized(m, x, a, o, &x);   inplaceLine("pnorm", rep, t, a, o, exact, pa, pno, x);
}

// (compile with -DC05_NO_INPLACE to leave the in-place probes out, should in-place use be ruled outside the contract)
static void emitInPlaceAll(const Models & M, const AI::Vector & b, size_t a, size_t o, bool exact) {
#ifdef C05_NO_INPLACE
    (void)M; (void)b; (void)a; (void)o; (void)exact; return;
#endif
    emitInPlace(*M.dense, "dense", M.t, b, a, o, exact);
    emitInPlace(*M.sparse, "sparse", M.t, b, a, o, exact);
    emitInPlace(M.user, "generic", M.t, b, a, o, exact);
    emitInPlace(*M.userEigen, "usereigen", M.t, b, a, o, exact);
}

// ---------------------------------------------------------------- fixed witness / regression cases
static Tables fixedCycle() {
    // S=3, A=2, O=3, fully asymmetric and deterministic: action 0 moves s -> s+1 (mod 3), action 1 moves s -> s-1;
    // observation = state under action 0, = state+1 under action 1.  A swapped s/s1 index, a transposed
    // matrix or an observation read at s instead of s1 gives a different corner here.
    Tables t; t.S = 3; t.A = 2; t.O = 3; t.discount = 0.5;
    t.T.assign(3, std::vector<std::vector<double>>(2, std::vector<double>(3, 0.0)));
    t.R = t.T; t.Ob = t.T;
    for (size_t s = 0; s < 3; ++s) {
        t.T[s][0][(s + 1) % 3] = 1.0; t.T[s][1][(s + 2) % 3] = 1.0;
        t.Ob[s][0][s] = 1.0; t.Ob[s][1][(s + 1) % 3] = 1.0;
        for (size_t s1 = 0; s1 < 3; ++s1) { t.R[s][0][s1] = (double)s + 0.25 * (double)s1; t.R[s][1][s1] = -(double)s1 - 0.5 * (double)s; }
    }
    return t;
}

static Tables fixedAsym() {
    // S=3, A=1, O=2, stochastic and asymmetric (no row equals a column)
    Tables t; t.S = 3; t.A = 1; t.O = 2; t.discount = 0.75;
    t.T = {{{0.5, 0.5, 0.0}}, {{0.0, 0.25, 0.75}}, {{0.125, 0.0, 0.875}}};
    t.Ob = {{{0.75, 0.25}}, {{0.0, 1.0}}, {{0.5, 0.5}}};
    t.R = {{{1.0, -2.0, 0.0}}, {{0.0, 0.5, 4.0}}, {{-1.0, 0.0, 0.25}}};
    return t;
}

static Tables fixedTiger() {
    // the symmetric 2-state listen action the repository's own tests use (for reference)
    Tables t; t.S = 2; t.A = 1; t.O = 2; t.discount = 0.875;
    t.T = {{{1.0, 0.0}}, {{0.0, 1.0}}};
    t.Ob = {{{0.875, 0.125}}, {{0.125, 0.875}}};
    t.R = {{{-1.0, -1.0}}, {{-1.0, -1.0}}};
    return t;
}

static const long kFixed = 7;

long verif::verif_ncases(const std::string & tier) {
    return kFixed + (tier == "thorough" ? 6000 : 260);
}

static void runFixed(long idx) {
    if (idx == 3) {
        // WITNESS (C05-inplace-generic): asymmetric S=3 model, b = (1/8, 5/8, 1/4), a = 0, o = 0.
        // Out of place every representation returns (9/128, 0, 11/32); called in place the loop branch returns (9/128, 0, 7/64).
        Models M(fixedAsym());
        AI::Vector b(3); b << 0.125, 0.625, 0.25;
        emitInPlaceAll(M, b, 0, 0, true);
        emitInPlaceAll(M, b, 0, 1, true);
        return;
    }
    if (idx == 4) {
        // boundary of the sparse storage rule `|p| > equalToleranceSmall`: the double 1e-6 itself is dropped by the
        // sparse containers, the next double above it is stored (a `<` for `<=` in checkEqualSmall shows here only)
        const double e = 1e-6, e2 = std::nextafter(1e-6, 1.0);
        Tables t; t.S = 2; t.A = 1; t.O = 2; t.discount = 0.5;
        t.T = {{{e, 1.0 - e}}, {{1.0 - e2, e2}}};
        t.Ob = {{{e, 1.0 - e}}, {{e2, 1.0 - e2}}};
        t.R = {{{1.0, 0.0}}, {{0.0, 1.0}}};
        Models M(t);
        for (size_t c = 0; c < 2; ++c) { AI::Vector b(2); b.setZero(); b[c] = 1.0; emitUpd(M, b, 0, false); }
        { AI::Vector b(2); b << 0.5, 0.5; emitUpd(M, b, 0, false); }
        return;
    }
    if (idx == 5) {
        // the other construction routes on the asymmetric S=3 models: NO_CHECK constructors (sparse matrices with every zero
        // stored explicitly, uncompressed), default constructor + Eigen-matrix setters, and the default-constructed model itself
        for (int which = 0; which < 2; ++which) {
            const Tables t = which ? fixedAsym() : fixedCycle();
            for (Route rt : {RT_NOCHECK, RT_SETTERS}) for (int z : {0, 2}) {
                Models M(t, rt, z, z == 0);
                emitTabs(M);
                AI::Vector b(3); b << 0.125, 0.625, 0.25;
                for (size_t a = 0; a < t.A; ++a) emitUpd(M, b, a, true);
                Rng rng(777); AI::Vector b0(3); b0 << 0.5, 0.25, 0.25;
                emitHist(*M.sparse, "sparseraw", M.t, b0, rng, 3, true);
            }
        }
        Models D(defaultTables(3, 2, 3), RT_DEFAULT);
        emitTabs(D);
        AI::Vector b(3); b << 0.125, 0.625, 0.25;
        for (size_t a = 0; a < 2; ++a) emitUpd(D, b, a, true);
        return;
    }
    if (idx == 6) {
        // what the table constructors accept: row sums 1 + 2^-20 (inside the tolerance 1e-6) and 1 + 2^-19 (outside), a slightly
        // negative entry balanced so that the row still sums to one, and tiny successors whose total mass is inside / outside
        // the tolerance once the sparse container has dropped them
        auto base = [] { Tables t = fixedAsym(); return t; };
        { Tables t = base(); t.T[0][0][0] += 0x1p-20; emitAccept<DenseM>("dense", t); emitAccept<SparseM>("sparse", t); emitAcceptSetters(t, 2, false); emitAcceptConv(t); }
        { Tables t = base(); t.T[0][0][0] += 0x1p-19; emitAccept<DenseM>("dense", t); emitAccept<SparseM>("sparse", t); emitAcceptSetters(t, 2, false); emitAcceptConv(t); }
        { Tables t = base(); t.Ob[1][0][0] = -0x1p-21; t.Ob[1][0][1] = 1.0 + 0x1p-21; emitAccept<DenseM>("dense", t); emitAccept<SparseM>("sparse", t); emitAcceptSetters(t, 2, false); emitAcceptConv(t); }
        { Tables t = base(); t.T[1][0][0] = -0.25; t.T[1][0][1] = 0.5; emitAccept<DenseM>("dense", t); emitAccept<SparseM>("sparse", t); emitAcceptSetters(t, 2, false); emitAcceptConv(t); }
        {   // an entry just above the storage threshold, compensated so that dropping it would go unnoticed by a row-sum test
            Tables t = base();
            t.Ob[0][0][0] = 0x1p-19; t.Ob[0][0][1] = 1.0 - 0x1p-19 + 0x1p-20;
            t.T[2][0][1] = 0x1p-19; t.T[2][0][2] = 0.875 - 0x1p-19 + 0x1p-20;
            emitAcceptConv(t);
            if (emitAccept<DenseM>("dense", t) && emitAccept<SparseM>("sparse", t)) {
                Models M(t); emitTabs(M);
                AI::Vector b(3); b << 0.125, 0.625, 0.25; emitUpd(M, b, 0, false); emitUpd(M, b, 0, false, true);
            }
        }
        {   // WITNESS (C05-2): isProbability(const SparseMatrix3D &) has no sign test, so the Eigen-matrix setters of a SparseModel take
            // an observation "probability" of -2^-22; updateBelief on the accepted object, belief (1/2, 1/2), observation 0
            // (probability 1/2 - 2^-23 > 0) returns a negative entry.  Lean: sparse_setters_unsigned_counterexample.
            Tables t = defaultTables(2, 1, 2);
            t.Ob[0][0][0] = -0x1p-22; t.Ob[0][0][1] = 1.0 + 0x1p-22;
            emitAcceptSetters(t, 0, true);
            SparseM sm(2, 2, 1, 0.5);
            bool acc = true; try { sm.setObservationFunction(toSparse3(denseOb(t), 0, true)); } catch (const std::invalid_argument &) { acc = false; }
            double neg = 0.0;
            if (acc) { AI::Vector b(2); b << 0.5, 0.5; neg = PO::updateBelief(sm, b, 0, 0)[0]; }
            std::printf("#stat observed_sparse_matrix_setter_accepts_negative_entry %d\n#stat observed_negative_posterior_entry %d\n", acc ? 1 : 0, neg < 0.0 ? 1 : 0);
        }
        for (int cnt : {2, 3, 7}) {
            Tables t = defaultTables(8, 1, 2);
            for (int j = 1; j <= cnt; ++j) { t.T[0][0][j] = 0x1p-21; t.T[0][0][0] -= 0x1p-21; }
            emitAccept<DenseM>("dense", t);
            if (emitAccept<SparseM>("sparse", t)) { Models M(t); emitTabs(M); AI::Vector b(8); b.setZero(); b[0] = 0.5; b[3] = 0.5; emitUpd(M, b, 0, false); }
        }
        return;
    }
    Tables t = idx == 0 ? fixedCycle() : idx == 1 ? fixedAsym() : fixedTiger();
    Models M(t);
    emitTabs(M);
    // every corner, the uniform-ish interior and a face
    for (size_t a = 0; a < t.A; ++a) {
        for (size_t c = 0; c < t.S; ++c) { AI::Vector b(t.S); b.setZero(); b[c] = 1.0; emitUpd(M, b, a, true); }
        { AI::Vector b(t.S); b.setZero(); b[0] = 0.5; b[t.S - 1] += 0.5; emitUpd(M, b, a, true); }
        if (t.S == 3) {
            AI::Vector b(3); b << 0.125, 0.625, 0.25; emitUpd(M, b, a, true); emitUpd(M, b, a, true, true);
            for (int v : {1, 2}) { M.eigenVariant = v; emitUpd(M, b, a, true); }
            M.eigenVariant = 0;
        }
    }
    // the helpers must tolerate a null output pointer (documented "basic nullptr check")
    {
        AI::Vector b(t.S); b.setZero(); b[0] = 1.0;
        PO::updateBeliefUnnormalized(*M.dense, b, 0, 0, nullptr); PO::updateBelief(*M.dense, b, 0, 0, nullptr);
        PO::updateBeliefPartial(*M.dense, b, 0, nullptr); PO::updateBeliefPartialUnnormalized(*M.dense, b, 0, 0, nullptr);
        PO::updateBeliefPartialNormalized(*M.dense, b, 0, 0, nullptr);
        PO::updateBeliefUnnormalized(M.user, b, 0, 0, nullptr); PO::updateBelief(M.user, b, 0, 0, nullptr);
        PO::updateBeliefPartial(M.user, b, 0, nullptr); PO::updateBeliefPartialUnnormalized(M.user, b, 0, 0, nullptr);
        PO::updateBeliefPartialNormalized(M.user, b, 0, 0, nullptr);
        std::printf("#stat nullptr_calls 10\n");
    }
    Rng rng(12345 + (uint64_t)idx);
    AI::Vector b0(t.S); b0.setZero(); b0[0] = 1.0;
    emitHist(*M.dense, "dense", t, b0, rng, 4, true);
    emitHist(*M.sparse, "sparse", t, b0, rng, 4, true);
    emitHist(M.user, "generic", t, b0, rng, 4, true);
    emitHist(*M.userEigen, "usereigen", t, b0, rng, 4, true);
    { AI::Vector bu = AI::Vector::Constant(t.S, 1.0 / (double)t.S); if (t.S == 3) bu << 0.5, 0.25, 0.25;
      emitTraj(*M.dense, "dense", t, b0, rng, 8); emitTraj(*M.sparse, "sparse", t, bu, rng, 8); }
}

static void verif_case_inner(Rng & rng, long idx, const std::string & tier) {
    AI::Seeder::setRootSeed((unsigned)(rng.next() & 0x7fffffffu));     // the models' own engines (sampleSOR) are seeded from here
    if (idx < kFixed) { runFixed(idx); return; }
    const bool thorough = tier == "thorough";
    // stream: 70% dyadic (bit-exact), 20% ugly (non-dyadic, tolerance compare), 10% tiny (sub-threshold entries)
    uint64_t r = rng.below(10);
    Stream st = r < 7 ? ST_DYADIC : r < 9 ? ST_UGLY : ST_TINY;   // (ST_NEAR is chosen below)
    size_t S = (size_t)rng.range(1, thorough ? 8 : 6);
    if (rng.coin(3, 4) && S < 3) S = (size_t)rng.range(3, 6);      // mostly S >= 3
    size_t A = (size_t)rng.range(1, 3);
    size_t O = (size_t)rng.range(1, 5);
    if (rng.coin(1, 25)) {                                         // a few large models: Eigen's vectorised kernels
        S = (size_t)rng.range(9, thorough ? 24 : 16); A = (size_t)rng.range(1, 2); O = (size_t)rng.range(2, 3);
        std::printf("#stat large_S 1\n");
    }
    // construction route: 60% table constructors (+ converting constructors), 15% NO_CHECK, 15% default + Eigen setters, 10% default model
    const uint64_t rr = rng.below(20);
    Route rt = rr < 12 ? RT_TABLE : rr < 15 ? RT_NOCHECK : rr < 18 ? RT_SETTERS : RT_DEFAULT;
    if (rng.coin(1, 8)) {
        // near-valid tables through the table constructors; now and then with many states (many tiny successors)
        st = ST_NEAR; rt = RT_TABLE;
        if (rng.coin(1, 4)) { S = (size_t)rng.range(16, thorough ? 96 : 28); A = 1; O = (size_t)rng.range(2, 3); }
    }
    Tables tt = rt == RT_DEFAULT ? defaultTables(S, A, O) : makeTables(rng, S, A, O, st == ST_NEAR ? ST_DYADIC : st);
    if (rt == RT_DEFAULT) st = ST_DYADIC;
    if (st == ST_NEAR) {
        perturb(rng, tt);
        const bool okD = emitAccept<DenseM>("dense", tt), okS = emitAccept<SparseM>("sparse", tt);
        emitAcceptSetters(tt, (int)rng.below(3), rng.coin());
        emitAcceptConv(tt);
        std::printf("#stat stream_near 1\n");
        if (!(okD && okS)) return;
    }
    if (st == ST_UGLY || st == ST_TINY) emitAcceptConv(tt);
    const int zeros = (int)rng.below(3); const bool compress = rng.coin();
    Models M(std::move(tt), rt, zeros, compress);
    const bool exact = st != ST_UGLY && st != ST_NEAR;
    std::printf("#stat stream_%s 1\n#stat S_%zu 1\n#stat O_%zu 1\n", st == ST_DYADIC ? "dyadic" : st == ST_UGLY ? "ugly" : st == ST_TINY ? "tiny" : "near_accepted", S, O);
    M.eigenVariant = (int)(idx % 3);
    std::printf("#stat usereigen_variant_%d 1\n", M.eigenVariant);
    if (S <= 8) emitTabs(M);
    for (int k = 0; k < 3; ++k) {
        int shape = (int)rng.below(4);
        if (shape == 3 && st == ST_UGLY) shape = 2;
        AI::Vector b = makeBelief(rng, S, st, shape);
        size_t a = rng.below(A);
        std::printf("#stat belief_%s 1\n", shape == 0 ? "corner" : shape == 1 ? "face" : shape == 2 ? "interior" : "tiny_entries");
        emitUpd(M, b, a, exact && !(shape == 3 && S > 1), k == 2 && rt == RT_TABLE);       // the third belief goes through the converted models
    }
    // the pointer overloads called in place, one (b, a, o) per case
    if (!thorough || idx % 3 == 0) {
        AI::Vector b = makeBelief(rng, S, st, (int)rng.below(3));
        emitInPlaceAll(M, b, rng.below(A), rng.below(O), exact);
    }
    // one short history per representation (exact while the dyadic denominators fit a double: 8 + 3*12 bits)
    AI::Vector b0 = makeBelief(rng, S, st, (int)rng.below(3));
    const bool hexact = st == ST_DYADIC;    // tiny entries (21 bits each) overflow the 53-bit mantissa after two steps
    size_t n = (size_t)rng.range(1, hexact ? 3 : 6);
    Rng r1 = rng, r2 = rng, r3 = rng, r4 = rng;
    emitHist(*M.dense, "dense", M.t, b0, r1, n, hexact);
    emitHist(*M.sparse, rt == RT_TABLE ? "sparse" : "sparseraw", M.t, b0, r2, n, hexact);
    emitHist(M.user, "generic", M.t, b0, r3, n, hexact);
    emitHist(*M.userEigen, "usereigen", M.t, b0, r4, n, hexact);
    { Rng r5 = rng; emitHist(*M.userSparse, "usersparse", M.t, b0, r5, n, hexact); }
    // simulated trajectories (longer: nothing is compared bit for bit here)
    { Rng r6 = rng, r7 = rng; const size_t len = (size_t)rng.range(2, 12);
      emitTraj(*M.dense, "dense", M.t, b0, r6, len);
      emitTraj(*M.sparse, rt == RT_TABLE ? "sparse" : "sparseraw", M.t, b0, r7, len); }
}

void verif::verif_case(Rng & rng, long idx, const std::string & tier) {
    try { verif_case_inner(rng, idx, tier); } catch (const SparseRejected &) {}
}

VERIF_MAIN
