// C10 harness: container / index cores driven over exhaustive small shapes under ASan+UBSan.
#include "common/verif.hpp"
#include <algorithm>
#include <AIToolbox/Factored/Utils/Core.hpp>
#include "common/gen.hpp"
#include <AIToolbox/Seeder.hpp>
#include <AIToolbox/MDP/Algorithms/MCTS.hpp>
#include <AIToolbox/POMDP/Algorithms/POMCP.hpp>
#include <AIToolbox/POMDP/Algorithms/rPOMCP.hpp>
#include <AIToolbox/POMDP/Environments/TigerProblem.hpp>
#include <AIToolbox/Factored/Utils/FactorGraph.hpp>

using namespace verif;
namespace F = AIToolbox::Factored;

static std::vector<F::Factors> g_spaces;
static void build_spaces(int maxFactors, int maxSize) {
    g_spaces.clear();
    for (int n = 1; n <= maxFactors; ++n) {
        F::Factors sp(n, 1);
        while (true) {
            g_spaces.push_back(sp);
            int i = 0;
            while (i < n) { if (++sp[i] <= (size_t)maxSize) break; sp[i] = 1; ++i; }
            if (i == n) break;
        }
    }
}

long verif::verif_ncases(const std::string & tier) {
    if (tier == "thorough") build_spaces(4, 3); else build_spaces(3, 2);
    return (long)g_spaces.size() + (tier == "thorough" ? 2000 : 200) + (tier == "thorough" ? 400 : 60) + (tier == "thorough" ? 600 : 80);
}

// all partial assignments over a space
static std::vector<F::PartialFactors> allPartials(const F::Factors & sp) {
    std::vector<F::PartialFactors> out;
    size_t n = sp.size();
    for (size_t mask = 0; mask < (1u << n); ++mask) {
        F::PartialKeys keys;
        for (size_t k = 0; k < n; ++k) if (mask & (1u << k)) keys.push_back(k);
        size_t total = F::factorSpacePartial(keys, sp);
        for (size_t id = 0; id < total; ++id) {
            F::PartialFactors pf; pf.first = keys; pf.second = F::toFactorsPartial(keys, sp, id);
            // exact-capacity vectors so that a read one past the end is a heap-buffer-overflow under ASan
            pf.first.shrink_to_fit(); pf.second.shrink_to_fit();
            out.push_back(pf);
        }
    }
    return out;
}

static void emit_match(const F::PartialFactors & l, const F::PartialFactors & r) {
    bool m = F::match(l, r);
    Line o; o << "C10" << "match"; o.nats(l.first); o.nats(l.second); o.nats(r.first); o.nats(r.second); o << "|" << m; o.emit();
}

// Online planners: documented call sequences sampleAction(b,h) then sampleAction(a,o,h') with varying horizons.
// Only memory safety / in-range results are observed here (C19 checks the tree semantics).
template <class Planner, class Model>
static void planner_sequence(Rng & rng, const char * name, Planner & pl, const Model & m, size_t S, size_t A, size_t O) {
    AIToolbox::Vector b = dyadicBelief(rng, S);
    unsigned h = (unsigned)rng.range(1, 4);
    size_t a = pl.sampleAction(b, h);
    bool ok = a < A;
    size_t s = rng.below(S);
    for (int step = 0; step < 6 && ok; ++step) {
        auto [s1, o, r] = m.sampleSOR(s, a); (void)r; s = s1;
        if (rng.coin(1, 5)) o = rng.below(O);                 // a never-simulated observation now and then
        unsigned h2 = (unsigned)rng.range(1, 4);              // horizon may shrink, stay or grow between calls
        a = pl.sampleAction(a, o, h2);
        ok = a < A;
    }
    Line l; l << "C10" << "range" << name << "|" << ok; l.emit();
}

// FactorGraph<Vector>: documented container sequences (getFactor / data writes / erase / copy construction) with the
// static node pool in every fill state; a copy must be an exact replica of its source whatever earlier graphs left in the pool.
using FG = F::FactorGraph<AIToolbox::Vector>;
static void dumpGraph(Line & l, const FG & g, size_t nvars) {
    l << (size_t)g.factorSize() << (size_t)g.variableSize();
    for (auto it = g.begin(); it != g.end(); ++it) { l.nats(g.getVariables(it)); l.nums(std::vector<double>(it->getData().data(), it->getData().data() + it->getData().size())); }
    for (size_t v = 0; v < nvars; ++v) { l.nats(g.getVariables(v)); l << (size_t)g.getFactors(v).size(); for (auto f : g.getFactors(v)) l.nats(g.getVariables(f)); }
}
static F::PartialKeys randomVars(Rng & rng, size_t n) {
    F::PartialKeys k; for (size_t v = 0; v < n; ++v) if (rng.coin(1, 3)) k.push_back(v);
    if (k.empty()) k.push_back(rng.below(n));
    return k;
}

// getVariables(const FactorItList &) — the union of the variables of a list of factors (built with the shared helper
// set_union_inplace): must equal the sorted duplicate-free union computed independently, for factor lists of mixed widths
// in every order (narrow-then-wide, interleaved new variables, repeated variables).
static bool unionOfFactorsOk(const FG & g, size_t nvars) {
    bool ok = true;
    for (size_t v = 0; v < nvars; ++v) {
        const auto & fs = g.getFactors(v);
        std::vector<size_t> ref;
        for (auto f : fs) for (auto x : g.getVariables(f)) ref.push_back(x);
        std::sort(ref.begin(), ref.end()); ref.erase(std::unique(ref.begin(), ref.end()), ref.end());
        const auto got = g.getVariables(fs);
        ok = ok && std::vector<size_t>(got.begin(), got.end()) == ref;
    }
    return ok;
}
static void factorgraph_union_case(Rng & rng) {
    const size_t n = (size_t)rng.range(3, 12);
    FG g(n);
    const int nf = (int)rng.range(2, 8);
    for (int i = 0; i < nf; ++i) {
        F::PartialKeys k;
        const unsigned shape = (unsigned)rng.below(4);
        if (shape == 0) k.push_back(rng.below(n));                                    // unary
        else if (shape == 1) { size_t w = 1 + rng.below(n); for (size_t x = 0; x < w; ++x) k.push_back(x); }   // prefix of width w
        else if (shape == 2) { size_t w = 1 + rng.below(n - 1); for (size_t x = 0; x < w; ++x) k.push_back(x); k.push_back(n - 1); }   // low block + the last variable
        else k = randomVars(rng, n);
        std::sort(k.begin(), k.end()); k.erase(std::unique(k.begin(), k.end()), k.end());
        g.getFactor(k);
    }
    Line r; r << "C10" << "range" << "FactorGraph.getVariables(factors)_is_sorted_union" << "|" << unionOfFactorsOk(g, n); r.emit();
    if (rng.coin()) { g.erase(rng.below(n)); Line r2; r2 << "C10" << "range" << "FactorGraph.getVariables(factors)_is_sorted_union_after_erase" << "|" << unionOfFactorsOk(g, n); r2.emit(); }
}

static void factorgraph_sequence(Rng & rng) {
    // 1. a bigger graph whose erased variables fill the pool with nodes carrying LARGE variable indices
    size_t nb = (size_t)rng.range(4, 9);
    { FG big(nb);
      for (int i = 0; i < (int)rng.range(2, 8); ++i) { auto it = big.getFactor(randomVars(rng, nb)); it->getData() = AIToolbox::Vector::Constant(2, (double)i); }
      for (int i = 0; i < (int)rng.range(0, 4); ++i) big.erase(nb - 1 - rng.below(2));
    }
    // 2. a small graph, possibly reusing pooled nodes, then copied
    size_t ns = (size_t)rng.range(2, 4);
    FG small(ns);
    for (int i = 0; i < (int)rng.range(1, 4); ++i) { auto it = small.getFactor(randomVars(rng, ns)); it->getData() = AIToolbox::Vector::Constant(1 + rng.below(2), 0.25 * (double)rng.range(-8, 8)); }
    if (rng.coin(1, 3)) small.erase(rng.below(ns));
    FG copy(small);
    Line l; l << "C10" << "fgcopy" << "|"; Line a, b; dumpGraph(a, small, ns); dumpGraph(b, copy, ns);
    l.tok(a.os.str()); l << "|"; l.tok(b.os.str()); l.emit();
    // 3. the copy must be usable: add a factor and erase a variable on it
    copy.getFactor(randomVars(rng, ns)); copy.erase(rng.below(ns));
    Line r; r << "C10" << "range" << "FactorGraph.copy_usable" << "|" << (copy.variableSize() <= ns); r.emit();
}

void verif::verif_case(Rng & rng, long idx, const std::string & tier) {
    const long nShape = (long)g_spaces.size() + (tier == "thorough" ? 2000 : 200);
    const long nPlan = nShape + (tier == "thorough" ? 400 : 60);
    if (idx >= nPlan) { factorgraph_sequence(rng); factorgraph_union_case(rng); return; }
    if (idx >= nShape) {
        namespace P = AIToolbox::POMDP;
        AIToolbox::Seeder::setRootSeed((unsigned)rng.next());
        bool tiger = rng.coin(1, 3);
        PomdpTables t = randomPomdp(rng, 2 + rng.below(2), 1 + rng.below(3), 1 + rng.below(3));
        auto m = tiger ? P::makeTigerProblem() : toDense(t);
        if (tiger) m.setDiscount(0.75);
        size_t S = m.getS(), A = m.getA(), O = m.getO();
        switch (idx % 4) {
            case 0: { P::POMCP<decltype(m)> pl(m, 20, 40, 2.0); planner_sequence(rng, "POMCP", pl, m, S, A, O); break; }
            case 1: { P::rPOMCP<decltype(m), true> pl(m, 20, 40, 2.0, 1); planner_sequence(rng, "rPOMCP<entropy>", pl, m, S, A, O); break; }
            case 2: { P::rPOMCP<decltype(m), false> pl(m, 20, 40, 2.0, 1); planner_sequence(rng, "rPOMCP<maxbelief>", pl, m, S, A, O); break; }
            default: {
                AIToolbox::MDP::MCTS<decltype(m)> pl(m, 40, 2.0);
                size_t s = rng.below(S); unsigned h = (unsigned)rng.range(1, 4);
                size_t a = pl.sampleAction(s, h); bool ok = a < A;
                for (int step = 0; step < 6 && ok; ++step) { auto [s1, r] = m.sampleSR(s, a); (void)r; s = s1; a = pl.sampleAction(a, s, (unsigned)rng.range(1, 4)); ok = a < A; }
                Line l; l << "C10" << "range" << "MCTS" << "|" << ok; l.emit();
            }
        }
        return;
    }
    if (idx < (long)g_spaces.size()) {
        auto ps = allPartials(g_spaces[idx]);
        for (auto & l : ps) for (auto & r : ps) emit_match(l, r);
        return;
    }
    // random larger spaces
    size_t n = (size_t)rng.range(2, 8);
    F::Factors sp(n); for (auto & d : sp) d = (size_t)rng.range(1, 5);
    for (int t = 0; t < 20; ++t) {
        F::PartialFactors l, r;
        for (size_t k = 0; k < n; ++k) { if (rng.coin()) { l.first.push_back(k); l.second.push_back(rng.below(sp[k])); } if (rng.coin()) { r.first.push_back(k); r.second.push_back(rng.below(sp[k])); } }
        F::PartialFactors l2{std::vector<size_t>(l.first), std::vector<size_t>(l.second)}, r2{std::vector<size_t>(r.first), std::vector<size_t>(r.second)};
        l2.first.shrink_to_fit(); l2.second.shrink_to_fit(); r2.first.shrink_to_fit(); r2.second.shrink_to_fit();
        emit_match(l2, r2);
    }
    (void)tier;
}

VERIF_MAIN
