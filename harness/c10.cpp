// C10 harness: container / index cores driven over exhaustive small shapes under ASan+UBSan.
#include "common/verif.hpp"
#include <algorithm>
#include <AIToolbox/Factored/Utils/Core.hpp>
#include "common/gen.hpp"
#include <AIToolbox/Seeder.hpp>
#include <AIToolbox/MDP/Algorithms/MCTS.hpp>
#include <AIToolbox/POMDP/Algorithms/POMCP.hpp>
#include <AIToolbox/POMDP/Algorithms/rPOMCP.hpp>
#include <AIToolbox/POMDP/Environments/TigerProblem.hpp>
#include <AIToolbox/Factored/Utils/FactorGraph.hpp>
#include <AIToolbox/Utils/Core.hpp>
#include <AIToolbox/Utils/Combinatorics.hpp>
#include <AIToolbox/Utils/Polytope.hpp>
#include <unistd.h>
#include <fcntl.h>
#include <sys/wait.h>

#define C10_API_BANDIT_TOPTWO_HANG_WITNESS
#include "c10_api_bandit.hpp"
#include "c10_api_futils.hpp"
#include "c10_api_utils.hpp"
#if __has_include("c10_api_fmdp.hpp") && !defined(C10_NO_FMDP)
#define C10_API_FMDP_NO_TINY_TORUS
#include "c10_api_fmdp.hpp"
#define C10_HAVE_FMDP 1
#endif
#if __has_include("c10_api_mdp.hpp") && !defined(C10_NO_MDP)
#include "c10_api_mdp.hpp"
#define C10_HAVE_MDP 1
#endif
#include <AIToolbox/Bandit/Policies/TopTwoThompsonSamplingPolicy.hpp>
#include <AIToolbox/Factored/Utils/APSP.hpp>
#include <AIToolbox/POMDP/Utils.hpp>
#include <AIToolbox/POMDP/Algorithms/Utils/BeliefGenerator.hpp>
#include <AIToolbox/Utils/Probability.hpp>

using namespace verif;
namespace F = AIToolbox::Factored;

static std::vector<F::Factors> g_spaces;
static bool g_thorough = false;
static void build_spaces(int maxFactors, int maxSize) {
    g_spaces.clear();
    for (int n = 1; n <= maxFactors; ++n) {
        F::Factors sp(n, 1);
        while (true) {
            g_spaces.push_back(sp);
            int i = 0;
            while (i < n) { if (++sp[i] <= (size_t)maxSize) break; sp[i] = 1; ++i; }
            if (i == n) break;
        }
    }
}

static void build_subset_shapes(size_t maxN);
static long n_util(const std::string & tier);
long verif::verif_ncases(const std::string & tier) {
    if (tier == "thorough") build_spaces(4, 3); else build_spaces(3, 2);
    g_thorough = tier == "thorough";
    build_subset_shapes(tier == "thorough" ? 8 : 6);
    return (long)g_spaces.size() + (tier == "thorough" ? 2000 : 200) + (tier == "thorough" ? 400 : 60) + (tier == "thorough" ? 600 : 80) + n_util(tier);
}

// all partial assignments over a space
static std::vector<F::PartialFactors> allPartials(const F::Factors & sp) {
    std::vector<F::PartialFactors> out;
    size_t n = sp.size();
    for (size_t mask = 0; mask < (1u << n); ++mask) {
        F::PartialKeys keys;
        for (size_t k = 0; k < n; ++k) if (mask & (1u << k)) keys.push_back(k);
        size_t total = F::factorSpacePartial(keys, sp);
        for (size_t id = 0; id < total; ++id) {
            F::PartialFactors pf; pf.first = keys; pf.second = F::toFactorsPartial(keys, sp, id);
            // exact-capacity vectors so that a read one past the end is a heap-buffer-overflow under ASan
            pf.first.shrink_to_fit(); pf.second.shrink_to_fit();
            out.push_back(pf);
        }
    }
    return out;
}

static void emit_match(const F::PartialFactors & l, const F::PartialFactors & r) {
    bool m = F::match(l, r);
    Line o; o << "C10" << "match"; o.nats(l.first); o.nats(l.second); o.nats(r.first); o.nats(r.second); o << "|" << m; o.emit();
}

// Online planners: documented call sequences sampleAction(b,h) then sampleAction(a,o,h') with varying horizons.
// Only memory safety / in-range results are observed here (C19 checks the tree semantics).
template <class Planner, class Model>
static void planner_sequence(Rng & rng, const char * name, Planner & pl, const Model & m, size_t S, size_t A, size_t O) {
    AIToolbox::Vector b = dyadicBelief(rng, S);
    unsigned h = (unsigned)rng.range(1, 4);
    size_t a = pl.sampleAction(b, h);
    bool ok = a < A;
    size_t s = rng.below(S);
    for (int step = 0; step < 6 && ok; ++step) {
        auto [s1, o, r] = m.sampleSOR(s, a); (void)r; s = s1;
        if (rng.coin(1, 5)) o = rng.below(O);                 // a never-simulated observation now and then
        unsigned h2 = (unsigned)rng.range(1, 4);              // horizon may shrink, stay or grow between calls
        a = pl.sampleAction(a, o, h2);
        ok = a < A;
    }
    Line l; l << "C10" << "range" << name << "|" << ok; l.emit();
}

// FactorGraph<Vector>: documented container sequences (getFactor / data writes / erase / copy construction) with the
// static node pool in every fill state; a copy must be an exact replica of its source whatever earlier graphs left in the pool.
using FG = F::FactorGraph<AIToolbox::Vector>;
static void dumpGraph(Line & l, const FG & g, size_t nvars) {
    l << (size_t)g.factorSize() << (size_t)g.variableSize();
    for (auto it = g.begin(); it != g.end(); ++it) { l.nats(g.getVariables(it)); l.nums(std::vector<double>(it->getData().data(), it->getData().data() + it->getData().size())); }
    for (size_t v = 0; v < nvars; ++v) { l.nats(g.getVariables(v)); l << (size_t)g.getFactors(v).size(); for (auto f : g.getFactors(v)) l.nats(g.getVariables(f)); }
}
static F::PartialKeys randomVars(Rng & rng, size_t n) {
    F::PartialKeys k; for (size_t v = 0; v < n; ++v) if (rng.coin(1, 3)) k.push_back(v);
    if (k.empty()) k.push_back(rng.below(n));
    return k;
}

// getVariables(const FactorItList &) — the union of the variables of a list of factors (built with the shared helper
// set_union_inplace): must equal the sorted duplicate-free union computed independently, for factor lists of mixed widths
// in every order (narrow-then-wide, interleaved new variables, repeated variables).
static bool unionOfFactorsOk(const FG & g, size_t nvars) {
    bool ok = true;
    for (size_t v = 0; v < nvars; ++v) {
        const auto & fs = g.getFactors(v);
        std::vector<size_t> ref;
        for (auto f : fs) for (auto x : g.getVariables(f)) ref.push_back(x);
        std::sort(ref.begin(), ref.end()); ref.erase(std::unique(ref.begin(), ref.end()), ref.end());
        const auto got = g.getVariables(fs);
        ok = ok && std::vector<size_t>(got.begin(), got.end()) == ref;
    }
    return ok;
}
static void factorgraph_union_case(Rng & rng) {
    const size_t n = (size_t)rng.range(3, 12);
    FG g(n);
    const int nf = (int)rng.range(2, 8);
    for (int i = 0; i < nf; ++i) {
        F::PartialKeys k;
        const unsigned shape = (unsigned)rng.below(4);
        if (shape == 0) k.push_back(rng.below(n));                                    // unary
        else if (shape == 1) { size_t w = 1 + rng.below(n); for (size_t x = 0; x < w; ++x) k.push_back(x); }   // prefix of width w
        else if (shape == 2) { size_t w = 1 + rng.below(n - 1); for (size_t x = 0; x < w; ++x) k.push_back(x); k.push_back(n - 1); }   // low block + the last variable
        else k = randomVars(rng, n);
        std::sort(k.begin(), k.end()); k.erase(std::unique(k.begin(), k.end()), k.end());
        g.getFactor(k);
    }
    Line r; r << "C10" << "range" << "FactorGraph.getVariables(factors)_is_sorted_union" << "|" << unionOfFactorsOk(g, n); r.emit();
    if (rng.coin()) { g.erase(rng.below(n)); Line r2; r2 << "C10" << "range" << "FactorGraph.getVariables(factors)_is_sorted_union_after_erase" << "|" << unionOfFactorsOk(g, n); r2.emit(); }
}

static void factorgraph_sequence(Rng & rng) {
    // 1. a bigger graph whose erased variables fill the pool with nodes carrying LARGE variable indices
    size_t nb = (size_t)rng.range(4, 9);
    { FG big(nb);
      for (int i = 0; i < (int)rng.range(2, 8); ++i) { auto it = big.getFactor(randomVars(rng, nb)); it->getData() = AIToolbox::Vector::Constant(2, (double)i); }
      for (int i = 0; i < (int)rng.range(0, 4); ++i) big.erase(nb - 1 - rng.below(2));
    }
    // 2. a small graph, possibly reusing pooled nodes, then copied
    size_t ns = (size_t)rng.range(2, 4);
    FG small(ns);
    for (int i = 0; i < (int)rng.range(1, 4); ++i) { auto it = small.getFactor(randomVars(rng, ns)); it->getData() = AIToolbox::Vector::Constant(1 + rng.below(2), 0.25 * (double)rng.range(-8, 8)); }
    if (rng.coin(1, 3)) small.erase(rng.below(ns));
    FG copy(small);
    Line l; l << "C10" << "fgcopy" << "|"; Line a, b; dumpGraph(a, small, ns); dumpGraph(b, copy, ns);
    l.tok(a.os.str()); l << "|"; l.tok(b.os.str()); l.emit();
    // 3. the copy must be usable: add a factor and erase a variable on it
    copy.getFactor(randomVars(rng, ns)); copy.erase(rng.below(ns));
    Line r; r << "C10" << "range" << "FactorGraph.copy_usable" << "|" << (copy.variableSize() <= ns); r.emit();
}


// ---------------------------------------------------------------------------------------------------------------
// Round 4: the shared index helpers one level below the anchored code (Utils/Core.hpp, Utils/Combinatorics.hpp), each on
// exact-capacity vectors (a read/write one past the end, or a read through a reallocated buffer, is an ASan report), each
// output printed for the Lean cursor model (AITB.Model.CursorUtil) and for the clause on the implementation's own output.
static void stat(const char * k) { std::printf("#stat %s 1\n", k); }
static std::vector<size_t> exact(const std::vector<size_t> & v) { std::vector<size_t> r(v); r.shrink_to_fit(); return r; }

template <class Enum, class ToId>
static void emit_subset(const char * kind, size_t k, size_t lo, size_t hi, Enum & e, ToId toId) {
    Line l; l << "C10" << "subset" << kind << k << lo << hi << "|";
    std::vector<std::vector<size_t>> vis; std::vector<size_t> lows;
    size_t guard = 0;
    while (e.isValid() && guard++ < 100000) {
        std::vector<size_t> cur; for (const auto & x : *e) cur.push_back(toId(x));
        if (e->size() != e.size()) cur.push_back(999999);            // operator-> and size() must agree
        vis.push_back(cur);
        lows.push_back((size_t)e.advance());
    }
    l << (size_t)vis.size(); for (auto & v : vis) l.nats(v);
    l << "|"; l.nats(lows); l << "|" << (size_t)e.subsetsSize(); l.emit();
    // reset() must restart the same enumeration
    e.reset(); std::vector<size_t> first; if (e.isValid()) for (const auto & x : *e) first.push_back(toId(x));
    Line r; r << "C10" << "range" << "SubsetEnumerator.reset_restarts" << "|" << (vis.empty() || first == vis.front()); r.emit();
}
static void subset_case(size_t k, size_t lo, size_t hi) {
    { AIToolbox::SubsetEnumerator<size_t> e(k, lo, hi); emit_subset("size_t", k, lo, hi, e, [](size_t x) { return x; }); }
    { // iterator flavour over an exact-capacity range: ids are iterators, reported as offsets (+lo so that both flavours agree)
      std::vector<int> pool(hi - lo); pool.shrink_to_fit();
      AIToolbox::SubsetEnumerator<std::vector<int>::iterator> e(k, pool.begin(), pool.end());
      emit_subset("iterator", k, lo, hi, e, [&](std::vector<int>::iterator it) { return (size_t)(it - pool.begin()) + lo; }); }
    stat(k == 1 ? "subset_k1" : k == hi - lo ? "subset_k_eq_n" : lo ? "subset_offset" : "subset_general");
}

static std::vector<size_t> sortedSet(Rng & rng, size_t n, size_t universe, size_t base = 0) {
    std::vector<size_t> v; for (size_t i = 0; i < n; ++i) v.push_back(base + rng.below(universe));
    std::sort(v.begin(), v.end()); v.erase(std::unique(v.begin(), v.end()), v.end()); return v;
}
static void union_case(Rng & rng) {
    const unsigned shape = (unsigned)rng.below(8);
    std::vector<size_t> l, r;
    switch (shape) {
        case 0: l = sortedSet(rng, 1 + rng.below(2), 12); r = sortedSet(rng, 4 + rng.below(6), 12); stat("union_narrow_then_wide"); break;
        case 1: l = sortedSet(rng, 4 + rng.below(6), 12); r = sortedSet(rng, 1 + rng.below(2), 12); stat("union_wide_then_narrow"); break;
        case 2: l = sortedSet(rng, rng.below(6), 8); r = sortedSet(rng, rng.below(6), 8, 100); stat("union_disjoint_high"); break;
        case 3: l = sortedSet(rng, rng.below(6), 8, 100); r = sortedSet(rng, rng.below(6), 8); stat("union_disjoint_low"); break;
        case 4: l = sortedSet(rng, 1 + rng.below(6), 10); r = l; stat("union_equal"); break;
        case 5: l = sortedSet(rng, 3 + rng.below(6), 16); for (auto x : l) if (rng.coin()) r.push_back(x); stat("union_subset"); break;
        case 6: if (rng.coin()) r = sortedSet(rng, rng.below(5), 9); else l = sortedSet(rng, rng.below(5), 9); stat("union_one_empty"); break;
        default: l = sortedSet(rng, rng.below(9), 1u << 20); r = sortedSet(rng, rng.below(9), 1u << 20); for (auto x : l) if (rng.coin(1, 3)) r.push_back(x);
                 std::sort(r.begin(), r.end()); r.erase(std::unique(r.begin(), r.end()), r.end()); stat("union_large_values_interleaved");
    }
    std::vector<size_t> out = exact(l); const std::vector<size_t> rr = exact(r);
    AIToolbox::set_union_inplace(out, rr);
    Line o; o << "C10" << "union"; o.nats(l); o.nats(r); o << "|"; o.nats(out); o.emit();
}
static void contains_case(Rng & rng) {
    std::vector<size_t> v = exact(sortedSet(rng, 1 + rng.below(9), rng.coin() ? 14 : 1000));
    std::vector<size_t> e;
    const unsigned shape = (unsigned)rng.below(6);
    if (shape == 0) { e = v; stat("contains_equal"); }
    else if (shape == 1) { for (auto x : v) if (rng.coin()) e.push_back(x); stat("contains_subset"); }
    else if (shape == 2) { e = sortedSet(rng, 1 + rng.below(v.size()), 14); stat("contains_random"); }
    else if (shape == 3) { e = v; e.back() += 1 + rng.below(3); stat("contains_equal_size_last_differs"); }           // same size, differs at the end
    else if (shape == 4) { for (auto x : v) if (rng.coin()) e.push_back(x); e.push_back(v.back() + 1 + rng.below(5)); if (e.size() > v.size()) e.erase(e.begin()); stat("contains_beyond_last"); }
    else { stat("contains_empty"); }
    if (e.size() > v.size()) e.resize(v.size());                     // documented precondition: elems.size() <= v.size()
    e = exact(e);
    const bool r = AIToolbox::sequential_sorted_contains(v, e);
    Line o; o << "C10" << "contains"; o.nats(v); o.nats(e); o << "|" << r; o.emit();
    // element overloads: below the first / between / equal to an element / above the last
    for (int t = 0; t < 3; ++t) {
        const size_t x = rng.coin() ? v[rng.below(v.size())] : rng.below(v.back() + 3);
        const auto it = AIToolbox::sequential_sorted_find(v.begin(), v.end(), x);
        const bool found = AIToolbox::sequential_sorted_contains(v.begin(), v.end(), x);
        Line f; f << "C10" << "find"; f.nats(v); f << x << "|" << (size_t)(it - v.begin()) << found; f.emit();
    }
    { std::vector<size_t> none; const auto it = AIToolbox::sequential_sorted_find(none.begin(), none.end(), (size_t)3);
      Line f; f << "C10" << "find"; f.nats(none); f << (size_t)3 << "|" << (size_t)(it - none.begin()) << AIToolbox::sequential_sorted_contains(none.begin(), none.end(), (size_t)3); f.emit(); }
}
static int ord(std::strong_ordering o) { return o < 0 ? -1 : o > 0 ? 1 : 0; }
static int ord(std::partial_ordering o) { return o < 0 ? -1 : o > 0 ? 1 : 0; }
static void veccmp_case(Rng & rng) {
    // integers: equal, differing first / last / middle
    { size_t n = rng.below(7); std::vector<size_t> a(n), b;
      for (auto & x : a) x = rng.below(4);
      b = a; const unsigned shape = (unsigned)rng.below(4);
      if (n && shape == 1) b[0] = a[0] + 1; else if (n && shape == 2) b[n - 1] = a[n - 1] + 1; else if (n && shape == 3) { b[rng.below(n)] += 1; if (rng.coin()) std::swap(a, b); }
      stat(shape == 0 ? "veccmp_equal" : shape == 1 ? "veccmp_first_differs" : shape == 2 ? "veccmp_last_differs" : "veccmp_middle_differs");
      a = exact(a); b = exact(b);
      Line o; o << "C10" << "veccmp"; o.nats(a); o.nats(b); o << "|" << ord(AIToolbox::veccmp(a, b)) << ord(AIToolbox::veccmp(b, a)); o.emit(); }
    // doubles: differences straddling the absolute tolerance 1e-6 and the relative tolerance 1e-11, mixed signs, large magnitudes
    { size_t n = 1 + rng.below(5); std::vector<double> a(n), b(n);
      static const double deltas[] = {0.0, 0x1p-21, 0x1p-20, 0x1p-19, 0x1p-40, 0.25, -0x1p-21, -0x1p-19, -0.5};   // 2^-20 ≈ 9.5e-7 < 1e-6 < 2^-19 ≈ 1.9e-6
      const bool big = rng.coin(1, 3);
      for (size_t i = 0; i < n; ++i) {
          a[i] = big ? std::ldexp((double)rng.range(-7, 7), 30 + (int)rng.below(10)) : 0.25 * (double)rng.range(-8, 8);
          const double d = deltas[rng.below(9)];
          b[i] = big ? a[i] * (1.0 + (rng.coin() ? 0x1p-40 : rng.coin() ? 0x1p-30 : 0.0)) + (rng.coin(1, 4) ? d : 0.0) : a[i] + d;
      }
      stat(big ? "veccmp_double_large" : "veccmp_double_small");
      Line e; e << "C10" << "veccmpq" << "exact"; e.nums(a); e.nums(b); e << "|" << ord(AIToolbox::veccmp(a, b)) << ord(AIToolbox::veccmp(b, a)); e.emit();
      Line s1; s1 << "C10" << "veccmpq" << "small"; s1.nums(a); s1.nums(b); s1 << "|" << ord(AIToolbox::veccmpSmall(a, b)) << ord(AIToolbox::veccmpSmall(b, a)); s1.emit();
      Line g; g << "C10" << "veccmpq" << "general"; g.nums(a); g.nums(b); g << "|" << ord(AIToolbox::veccmpGeneral(a, b)) << ord(AIToolbox::veccmpGeneral(b, a)); g.emit();
      // Eigen vectors go through the same template
      AIToolbox::Vector ea = Eigen::Map<AIToolbox::Vector>(a.data(), (Eigen::Index)n), eb = Eigen::Map<AIToolbox::Vector>(b.data(), (Eigen::Index)n);
      Line e2; e2 << "C10" << "veccmpq" << "exact"; e2.nums(a); e2.nums(b); e2 << "|" << ord(AIToolbox::veccmp(ea, eb)) << ord(AIToolbox::veccmp(eb, ea)); e2.emit(); }
    // max_element_unary: duplicated maxima (the FIRST must win), all negative, single, empty
    { size_t n = rng.below(7); std::vector<double> v(n); for (auto & x : v) x = 0.5 * (double)rng.range(-4, 3);
      if (n > 2 && rng.coin()) v[n - 1] = *std::max_element(v.begin(), v.end());
      stat(n == 0 ? "maxunary_empty" : "maxunary_nonempty");
      auto [it, val] = AIToolbox::max_element_unary(v.begin(), v.end(), [](double x) { return 2.0 * x - 1.0; });
      std::vector<double> conv; for (auto x : v) conv.push_back(2.0 * x - 1.0);
      Line o; o << "C10" << "maxunary"; o.nums(conv); o << "|" << (size_t)(it - v.begin()) << val; o.emit(); }
}
static void choose_case(Rng & rng, bool exhaustive) {
    if (exhaustive) { for (unsigned n = 0; n <= 12; ++n) for (unsigned k = 0; k <= n + 1; ++k) { Line o; o << "C10" << "choose" << n << k << "|" << AIToolbox::nChooseK(n, k); o.emit(); } stat("choose_exhaustive_n_le_12"); return; }
    const unsigned n = (unsigned)rng.range(13, 34), k = (unsigned)rng.below(n + 1);
    Line o; o << "C10" << "choose" << n << k << "|" << AIToolbox::nChooseK(n, k); o.emit();
    const unsigned st = 1 + (unsigned)rng.below(9), ba = 1 + (unsigned)rng.below(5);
    Line a; a << "C10" << "choose" << (st + ba) << ba << "|" << AIToolbox::starsBars(st, ba); a.emit();
    Line b; b << "C10" << "choose" << (st + ba) << ba << "|" << AIToolbox::ballsBins(st, ba + 1); b.emit();
    Line c; c << "C10" << "choose" << (st + ba - 1) << ba << "|" << AIToolbox::nonZeroStarsBars(st + ba, ba); c.emit();
    Line d; d << "C10" << "choose" << (st + ba - 1) << ba << "|" << AIToolbox::nonZeroBallsBins(st + ba, ba + 1); d.emit();
    stat("choose_random");
}
// A call that may be undefined behaviour on the tree as found runs in a forked child (stderr/stdout to /dev/null): the parent reports
// `C10 guard <component> <clause> | <1 = child returned 0 / 0 = child died or returned non-zero>` and carries on.
template <class Fn>
static void guarded(const char * comp, const char * clause, Fn fn, unsigned seconds = 20) {
    std::fflush(stdout); std::fflush(stderr);
    const pid_t pid = fork();
    if (pid == 0) {
        const int dn = open("/dev/null", O_WRONLY);
        if (dn >= 0) { dup2(dn, 2); dup2(dn, 1); }
        alarm(seconds);
        _exit(fn() ? 0 : 1);
    }
    int st = 0; bool ok = false;
    if (pid > 0 && waitpid(pid, &st, 0) == pid) ok = WIFEXITED(st) && WEXITSTATUS(st) == 0;
    Line l; l << "C10" << "guard" << comp << clause << "|" << ok; l.emit();
}
// findVerticesNaive over ONE-dimensional planes (a one-state belief space): S - 1 = 0 planes are chosen per vertex, so the enumerator is
// built with zero elements and `isValid()` calls `back()` on an empty vector. The only belief is a corner of the simplex, which the
// function documents it does not report: the answer must be an empty list.
static void naive_one_dimensional_case(Rng & rng) {
    const size_t nNew = 1 + rng.below(2), nOld = 1 + rng.below(3);
    std::vector<double> vals; for (size_t i = 0; i < nNew + nOld; ++i) vals.push_back(0.25 * (double)rng.range(-8, 8));
    guarded("findVerticesNaive", "one_dimensional_planes", [&] {
        std::vector<AIToolbox::Vector> news, olds;
        for (size_t i = 0; i < nNew; ++i) { AIToolbox::Vector v(1); v[0] = vals[i]; news.push_back(v); }
        for (size_t i = 0; i < nOld; ++i) { AIToolbox::Vector v(1); v[0] = vals[nNew + i]; olds.push_back(v); }
        const auto r = AIToolbox::findVerticesNaive(news.begin(), news.end(), olds.begin(), olds.end());
        return r.first.empty() && r.second.empty();
    });
    stat("naive_one_dimensional");
}

// FactorGraph history: getFactor (new / existing key sets, sorted, mixed widths, non-prefix) and erase in random order; after every
// call the neighbour lists of ALL variables and the live factors are printed (Lean: FGCursor.step, theorem fg_history_safe).
static void fg_history_case(Rng & rng) {
    const size_t n = (size_t)rng.range(2, 8);
    FG g(n);
    std::vector<bool> erased(n, false);
    auto dump = [&](Line & l) { l << n; for (size_t v = 0; v < n; ++v) l.nats(g.getVariables(v)); };
    auto live = [&](Line & l) { l << (size_t)g.factorSize(); for (auto it = g.begin(); it != g.end(); ++it) l.nats(g.getVariables(it)); };
    std::vector<F::PartialKeys> seen;
    for (int step = 0; step < 10; ++step) {
        std::vector<size_t> alive; for (size_t v = 0; v < n; ++v) if (!erased[v]) alive.push_back(v);
        Line l; l << "C10" << "fgstep" << n << "|"; dump(l); l << "|";
        if (alive.size() >= 1 && (alive.size() == n ? rng.coin(3, 4) : rng.coin(2, 3))) {
            F::PartialKeys k;
            if (!seen.empty() && rng.coin(1, 4)) { k = rng.pick(seen); stat("fg_add_seen_key"); }
            else { for (auto v : alive) if (rng.coin(1, 2)) k.push_back(v); if (k.empty()) k.push_back(rng.pick(alive)); stat(k.size() == 1 ? "fg_add_unary" : k.front() == alive.front() ? "fg_add_from_first" : "fg_add_non_prefix"); }
            bool ok = true; for (auto v : k) ok = ok && !erased[v];
            if (!ok) { k.clear(); k.push_back(rng.pick(alive)); }
            k.shrink_to_fit();
            const size_t before = g.factorSize();
            g.getFactor(k); seen.push_back(k);
            l << "add"; l.nats(k); l << (g.factorSize() != before);
        } else {
            const size_t a = rng.coin(1, 5) ? rng.below(n) : (alive.empty() ? rng.below(n) : rng.pick(alive));    // sometimes an already erased variable (documented no-op)
            stat(erased[a] ? "fg_erase_again" : g.getVariables(a).empty() ? "fg_erase_isolated" : "fg_erase_connected");
            g.erase(a); erased[a] = true;
            l << "erase" << a;
        }
        l << "|"; dump(l); l << "|"; live(l); l.emit();
    }
    Line r; r << "C10" << "range" << "FactorGraph.variableSize_counts_active" << "|" << (g.variableSize() == (size_t)std::count(erased.begin(), erased.end(), false)); r.emit();
}

// ---------------------------------------------------------------------------------------------------------------
// Public-API sweep (round 4): documented call sequences, with valid arguments, for the public functions that no harness referenced
// (tools/api_coverage.py); written per library area in harness/c10_api_*.hpp, each call with a cheap certain oracle.
static long n_api(const std::string & tier) { return tier == "thorough" ? 1000 : 150; }
static void api_case(Rng & rng, long u) {
    if (u == 0) {
        // witnesses of open findings that would take the process down (or never return): forked
        guarded("TopTwoThompsonSamplingPolicy.sampleAction", "never_returns_with_constant_rewards", [] {
            AIToolbox::Bandit::Experience exp(2);
            exp.record(0, 1.0); exp.record(0, 1.0); exp.record(1, 0.0); exp.record(1, 0.0);
            AIToolbox::Bandit::TopTwoThompsonSamplingPolicy p(exp, 0.0);
            return p.sampleAction() < 2; }, 3);
#ifdef C10_HAVE_FMDP
        guarded("TigerAntelope", "tiny_torus", [&] { c10api::fmdp_detail::groupTigerTinyTorus(rng); return true; });
#endif
        guarded("APSP", "graph_with_erased_variable", [] {
            FG g(6); g.getFactor({4, 5}); g.erase(0);
            return AIToolbox::Factored::APSP(g) == 1; });
        return;
    }
    const long k = (u - 1) / 5;
    switch ((u - 1) % 5) {
        case 0: c10api::api_bandit(rng, k); break;
        case 1: c10api::api_futils(rng, k); break;
        case 2: c10api::api_utils(rng, k); break;
#ifdef C10_HAVE_FMDP
        case 3: c10api::api_fmdp(rng, k); break;
#endif
#ifdef C10_HAVE_MDP
        case 4: c10api::api_mdp(rng, k); break;
#endif
        default: break;
    }
}

// BeliefGenerator (both overloads): the in-place partition of the belief list with its double swap (Lean: BGCursor.selectLoop_total) runs on
// random POMDPs; only what the documentation promises is required of the result: every entry a probability vector of the right size,
// at most the requested number, the caller's beliefs still at the front.
static void beliefgen_case(Rng & rng) {
    namespace P = AIToolbox::POMDP;
    AIToolbox::Seeder::setRootSeed((unsigned)rng.next());
    const size_t S = 1 + rng.below(4), A = 1 + rng.below(3), O = 1 + rng.below(3);
    PomdpTables t = randomPomdp(rng, S, A, O);
    auto m = toDense(t);
    P::BeliefGenerator<decltype(m)> bg(m);
    const size_t want = rng.coin(1, 4) ? 1 + rng.below(S) : S + 1 + rng.below(14);
    stat(want <= S ? "beliefgen_fewer_than_corners" : want <= S + 2 ? "beliefgen_few_extra" : "beliefgen_many");
    auto bl = bg(want);
    bool ok = bl.size() <= std::max(want, (size_t)1) + S;           // "tries to generate": never more than asked (the corners are added first)
    for (const auto & b : bl) ok = ok && (size_t)b.size() == S && AIToolbox::isProbability(S, b);
    Line l; l << "C10" << "range" << "BeliefGenerator(n).beliefs_are_probabilities" << "|" << ok; l.emit();
    // the list overload, starting from the caller's own beliefs
    std::vector<P::Belief> mine; const size_t n0 = 1 + rng.below(3);
    for (size_t i = 0; i < n0; ++i) mine.push_back(dyadicBelief(rng, S));
    const auto keep = mine;
    const size_t want2 = n0 + rng.below(10);
    bg(want2, &mine);
    bool ok2 = true;
    for (const auto & b : mine) ok2 = ok2 && (size_t)b.size() == S && AIToolbox::isProbability(S, b);
    for (size_t i = 0; i < std::min(keep.size(), mine.size()) && i < want2; ++i) ok2 = ok2 && keep[i] == mine[i];
    Line r; r << "C10" << "range" << "BeliefGenerator(n,list).extends_callers_list_with_probabilities" << "|" << ok2; r.emit();
}

// all (n, k, lo) with 1 <= k <= n <= maxN, lo in {0, 3}: index -> shape
static std::vector<std::array<size_t, 3>> g_subsetShapes;
static void build_subset_shapes(size_t maxN) {
    g_subsetShapes.clear();
    for (size_t n = 1; n <= maxN; ++n) for (size_t k = 1; k <= n; ++k) for (size_t lo : {size_t(0), size_t(3)}) g_subsetShapes.push_back({n, k, lo});
}
static long n_util(const std::string & tier) { return (long)g_subsetShapes.size() + 1 + (tier == "thorough" ? 1500 : 150) + n_api(tier); }
static void util_case(Rng & rng, long u) {
    if (u < (long)g_subsetShapes.size()) { auto [n, k, lo] = g_subsetShapes[u]; subset_case(k, lo, lo + n); return; }
    u -= (long)g_subsetShapes.size();
    { const long nPlain = 1 + (g_thorough ? 1500 : 150); if (u >= nPlain) { api_case(rng, u - nPlain); return; } }
    if (u == 0) { choose_case(rng, true); naive_one_dimensional_case(rng); return; }
    union_case(rng); contains_case(rng); veccmp_case(rng); fg_history_case(rng);
    if (u % 3 == 0) choose_case(rng, false);
    if (u % 3 == 1) beliefgen_case(rng);
    if (u % 25 == 1) naive_one_dimensional_case(rng);
    if (u % 10 == 0) { size_t n = 8 + rng.below(3), k = 1 + rng.below(n), lo = rng.below(5); subset_case(k, lo, lo + n); }
}

void verif::verif_case(Rng & rng, long idx, const std::string & tier) {
    { static long nOld = -1; if (nOld < 0) nOld = verif::verif_ncases(tier) - n_util(tier); if (idx >= nOld) { util_case(rng, idx - nOld); return; } }
    const long nShape = (long)g_spaces.size() + (tier == "thorough" ? 2000 : 200);
    const long nPlan = nShape + (tier == "thorough" ? 400 : 60);
    if (idx >= nPlan) { factorgraph_sequence(rng); factorgraph_union_case(rng); return; }
    if (idx >= nShape) {
        namespace P = AIToolbox::POMDP;
        AIToolbox::Seeder::setRootSeed((unsigned)rng.next());
        bool tiger = rng.coin(1, 3);
        PomdpTables t = randomPomdp(rng, 2 + rng.below(2), 1 + rng.below(3), 1 + rng.below(3));
        auto m = tiger ? P::makeTigerProblem() : toDense(t);
        if (tiger) m.setDiscount(0.75);
        size_t S = m.getS(), A = m.getA(), O = m.getO();
        switch (idx % 4) {
            case 0: { P::POMCP<decltype(m)> pl(m, 20, 40, 2.0); planner_sequence(rng, "POMCP", pl, m, S, A, O); break; }
            case 1: { P::rPOMCP<decltype(m), true> pl(m, 20, 40, 2.0, 1); planner_sequence(rng, "rPOMCP<entropy>", pl, m, S, A, O); break; }
            case 2: { P::rPOMCP<decltype(m), false> pl(m, 20, 40, 2.0, 1); planner_sequence(rng, "rPOMCP<maxbelief>", pl, m, S, A, O); break; }
            default: {
                AIToolbox::MDP::MCTS<decltype(m)> pl(m, 40, 2.0);
                size_t s = rng.below(S); unsigned h = (unsigned)rng.range(1, 4);
                size_t a = pl.sampleAction(s, h); bool ok = a < A;
                for (int step = 0; step < 6 && ok; ++step) { auto [s1, r] = m.sampleSR(s, a); (void)r; s = s1; a = pl.sampleAction(a, s, (unsigned)rng.range(1, 4)); ok = a < A; }
                Line l; l << "C10" << "range" << "MCTS" << "|" << ok; l.emit();
            }
        }
        return;
    }
    if (idx < (long)g_spaces.size()) {
        auto ps = allPartials(g_spaces[idx]);
        for (auto & l : ps) for (auto & r : ps) emit_match(l, r);
        return;
    }
    // random larger spaces
    size_t n = (size_t)rng.range(2, 8);
    F::Factors sp(n); for (auto & d : sp) d = (size_t)rng.range(1, 5);
    for (int t = 0; t < 20; ++t) {
        F::PartialFactors l, r;
        for (size_t k = 0; k < n; ++k) { if (rng.coin()) { l.first.push_back(k); l.second.push_back(rng.below(sp[k])); } if (rng.coin()) { r.first.push_back(k); r.second.push_back(rng.below(sp[k])); } }
        F::PartialFactors l2{std::vector<size_t>(l.first), std::vector<size_t>(l.second)}, r2{std::vector<size_t>(r.first), std::vector<size_t>(r.second)};
        l2.first.shrink_to_fit(); l2.second.shrink_to_fit(); r2.first.shrink_to_fit(); r2.second.shrink_to_fit();
        emit_match(l2, r2);
    }
    (void)tier;
}

VERIF_MAIN
