// C01 correspondence harness: MDP planners (ValueIteration, PolicyEvaluation, PolicyIteration, LinearProgramming)
// on the same MDP supplied through four representations:
//   dense   MDP::Model                          (IsModelEigen)
//   sparse  MDP::SparseModel                    (IsModelEigen, sparse kernels)
//   learned MDP::MaximumLikelihoodModel<Experience> over a synthetic experience whose counts reproduce T
//   generic a user-defined struct that only answers probability / reward queries (NOT IsModelEigen: generic triple loops)
// Every double crosses as an exact token; the Lean driver re-runs its model and evaluates the property clauses.
#include "common/verif.hpp"
#include <AIToolbox/MDP/Model.hpp>
#include <AIToolbox/MDP/SparseModel.hpp>
#include <AIToolbox/MDP/Experience.hpp>
#include <AIToolbox/MDP/MaximumLikelihoodModel.hpp>
#include <AIToolbox/MDP/SparseExperience.hpp>
#include <AIToolbox/MDP/SparseMaximumLikelihoodModel.hpp>
#include <AIToolbox/MDP/ThompsonModel.hpp>
#include <AIToolbox/MDP/Algorithms/ValueIteration.hpp>
#include <AIToolbox/MDP/Algorithms/PolicyIteration.hpp>
#include <AIToolbox/MDP/Algorithms/LinearProgramming.hpp>
#include <AIToolbox/MDP/Algorithms/Utils/PolicyEvaluation.hpp>
#include <AIToolbox/MDP/Policies/Policy.hpp>
#include <AIToolbox/MDP/Policies/QGreedyPolicy.hpp>
#include <AIToolbox/Seeder.hpp>
#include <unistd.h>
#include <poll.h>
#include <signal.h>
#include <sys/wait.h>

using namespace verif;
namespace M = AIToolbox::MDP;
using T3 = std::vector<std::vector<std::vector<double>>>;

// ---- the user-defined, probability-query-only model -------------------------------------------
struct GenericModel {
    size_t S, A; double discount; const T3 * t; const T3 * r;
    size_t getS() const { return S; }
    size_t getA() const { return A; }
    double getDiscount() const { return discount; }
    double getTransitionProbability(size_t s, size_t a, size_t s1) const { return (*t)[s][a][s1]; }
    double getExpectedReward(size_t s, size_t a, size_t s1) const { return (*r)[s][a][s1]; }
    std::tuple<size_t, double> sampleSR(size_t s, size_t a) const {
        // deterministic "sample": most likely successor (never used by the planners)
        size_t best = 0; for (size_t s1 = 1; s1 < S; ++s1) if ((*t)[s][a][s1] > (*t)[s][a][best]) best = s1;
        return {best, (*r)[s][a][best]};
    }
    bool isTerminal(size_t) const { return false; }
};
static_assert(M::IsModel<GenericModel>, "GenericModel must satisfy IsModel");
static_assert(!M::IsModelEigen<GenericModel>, "GenericModel must NOT be an Eigen model (generic path)");
static_assert(M::IsModelEigen<M::Model> && M::IsModelEigen<M::SparseModel> && M::IsModelEigen<M::MaximumLikelihoodModel<M::Experience>>);
static_assert(M::IsModelEigen<M::SparseMaximumLikelihoodModel<M::SparseExperience>> && M::IsModelEigen<M::ThompsonModel<M::Experience>>);

// ---- generated MDP ------------------------------------------------------------------------------
struct Gen {
    size_t S = 1, A = 1; double g = 0.5;
    T3 t, r;           // t[s][a][s1] as every representation will hold it; r[s][a][s1]
    std::vector<std::vector<std::vector<unsigned>>> cnt;   // counts reproducing t = cnt * (1.0 / den)
    unsigned den = 8;
    bool dyadic = true;
};

static Gen genMDP(Rng & rng, const std::string & tier, bool ugly) {
    Gen G;
    const bool th = tier == "thorough";
    G.S = (size_t)rng.range(1, th ? 12 : 6);
    G.A = (size_t)rng.range(1, th ? 6 : 4);
    if (rng.coin(1, 8)) G.A = 1;
    if (rng.coin(1, 16)) G.S = 1;
    G.dyadic = !ugly;
    if (!ugly) { static const double gs[] = {0.5, 0.75, 0.875}; G.g = gs[rng.below(3)]; G.den = 8; }
    else { static const double gs[] = {0.9, 0.95, 1.0 / 3.0, 0.5, 0.99, 0.1}; G.g = gs[rng.below(6)];
           static const unsigned ds[] = {10, 3, 7, 12}; G.den = ds[rng.below(4)]; }
    const double rec = 1.0 / G.den;
    // reward style
    const int rstyle = (int)rng.below(5);   // 0 mixed sign, 1 all negative, 2 all positive, 3 sparse, 4 large scale
    const double scale = std::ldexp(1.0, (int)rng.range(-4, 6));
    G.t.assign(G.S, std::vector<std::vector<double>>(G.A, std::vector<double>(G.S, 0.0)));
    G.r = G.t; G.cnt.assign(G.S, std::vector<std::vector<unsigned>>(G.A, std::vector<unsigned>(G.S, 0)));
    // a set of states nobody moves into (unreachable) and absorbing states
    std::vector<char> unreachable(G.S, 0), absorbing(G.S, 0);
    for (size_t s = 0; s < G.S; ++s) { if (G.S > 2 && rng.coin(1, 6)) unreachable[s] = 1; if (rng.coin(1, 6)) absorbing[s] = 1; }
    std::vector<size_t> targets; for (size_t s = 0; s < G.S; ++s) if (!unreachable[s]) targets.push_back(s);
    if (targets.empty()) { targets.push_back(0); unreachable[0] = 0; }
    long nDet = 0, nSelf = 0;
    for (size_t s = 0; s < G.S; ++s) for (size_t a = 0; a < G.A; ++a) {
        auto & c = G.cnt[s][a];
        int style = (int)rng.below(6);       // 0,1 random spread; 2 deterministic; 3 stochastic self-loop; 4 two-point; 5 uniform-ish
        if (absorbing[s]) { c[s] = G.den; }
        else if (style == 2) { c[rng.pick(targets)] = G.den; ++nDet; }
        else if (style == 3) { unsigned k = (unsigned)rng.range(1, G.den - 1); c[s] += k; c[rng.pick(targets)] += G.den - k; ++nSelf; }
        else if (style == 4) { unsigned k = (unsigned)rng.range(1, G.den - 1); c[rng.pick(targets)] += k; c[rng.pick(targets)] += G.den - k; }
        else { for (unsigned k = 0; k < G.den; ++k) c[rng.pick(targets)] += 1; }
        for (size_t s1 = 0; s1 < G.S; ++s1) {
            G.t[s][a][s1] = (double)c[s1] * rec;
            double x;
            if (!ugly) x = 0.25 * (double)rng.range(-16, 16) * scale; else x = 0.1 * (double)rng.range(-30, 30) * (rstyle == 4 ? 37.0 : 1.0);
            if (rstyle == 1) x = -std::fabs(x); else if (rstyle == 2) x = std::fabs(x); else if (rstyle == 3 && !rng.coin(1, 4)) x = 0.0;
            G.r[s][a][s1] = x;
        }
    }
    std::printf("#stat S%zu 1\n#stat A%zu 1\n#stat %s 1\n#stat deterministic_rows %ld\n#stat selfloop_rows %ld\n", G.S, G.A, ugly ? "ugly" : "dyadic", nDet, nSelf);
    long nu = 0, na = 0; for (size_t s = 0; s < G.S; ++s) { nu += unreachable[s]; na += absorbing[s]; }
    std::printf("#stat unreachable_states %ld\n#stat absorbing_states %ld\n#stat rstyle%d 1\n", nu, na, rstyle);
    return G;
}

// ---- protocol helpers ------------------------------------------------------------------------------
static void putMDP(Line & l, const Gen & G) {
    l << G.S << G.A << G.g;
    for (size_t s = 0; s < G.S; ++s) for (size_t a = 0; a < G.A; ++a) for (size_t s1 = 0; s1 < G.S; ++s1) l << G.t[s][a][s1];
    for (size_t s = 0; s < G.S; ++s) for (size_t a = 0; a < G.A; ++a) for (size_t s1 = 0; s1 < G.S; ++s1) l << G.r[s][a][s1];
}
static void putVec(Line & l, const AIToolbox::Vector & v) { for (long i = 0; i < v.size(); ++i) l << v[i]; }
static void putMat(Line & l, const AIToolbox::Matrix2D & q) { for (long i = 0; i < q.rows(); ++i) for (long j = 0; j < q.cols(); ++j) l << (double)q(i, j); }
static void putActs(Line & l, const M::Actions & a) { for (auto x : a) l << (size_t)x; }
// mode: 1 = exact (dyadic inputs, short run), 2 = dyadic inputs but long run, 0 = non-dyadic inputs
static Line head(const char * op, bool exact, const char * rep, const Gen & G) { Line l; l << "C01" << op << (exact ? 1 : (G.dyadic ? 2 : 0)) << rep; putMDP(l, G); return l; }

struct Warm { bool on = false; M::ValueFunction vf; };

template <class Mod>
static AIToolbox::Vector runVI(const Mod & mod, const char * rep, const Gen & G, bool exact, unsigned h, double tol, const Warm & w) {
    M::ValueIteration vi(h, tol);
    if (w.on) vi.setValueFunction(w.vf);
    auto [var, vf, q] = vi(mod);
    Line l = head("vi", exact, rep, G); l << h << tol << w.on;
    if (w.on) { l << (size_t)w.vf.values.size(); putVec(l, w.vf.values); l.nats(w.vf.actions); }
    l << "|" << var; putVec(l, vf.values); l.nats(vf.actions); putMat(l, q); l.emit();
    return vf.values;
}

template <class Mod>
static AIToolbox::Vector runPE(const Mod & mod, const char * rep, const Gen & G, bool exact, unsigned h, double tol, const AIToolbox::Vector * warm, const AIToolbox::Matrix2D & pol) {
    M::PolicyEvaluation<Mod> pe(mod, h, tol);
    if (warm) pe.setValues(*warm);
    M::Policy policy(pol);
    auto [var, v, q] = pe(policy);
    Line l = head("pe", exact, rep, G); l << h << tol << (warm != nullptr);
    if (warm) { l << (size_t)warm->size(); putVec(l, *warm); }
    putMat(l, pol); l << "|" << var; putVec(l, v); putMat(l, q); l.emit();
    return v;
}

template <class Mod>
static AIToolbox::Matrix2D runPIUnguarded(const Mod & mod, const char * rep, const Gen & G, unsigned h, double tol) {
    M::PolicyIteration pi(h, tol);
    auto q = pi(mod);
    Line l = head("pi", false, rep, G); l << h << tol << "|"; putMat(l, q); l.emit();
    return q;
}

// PolicyIteration has no iteration bound.  On inputs where it may not return (see fixes/C01-3) the call runs in a forked child with a
// wall-clock limit, so that non-termination becomes a protocol line (`| timeout`, a failing input) instead of a killed harness.
template <class Mod>
static bool runPIGuarded(const Mod & mod, const char * rep, const Gen & G, unsigned h, double tol, int limitMs, AIToolbox::Matrix2D & out, M::PolicyIteration * obj = nullptr) {
    int fd[2]; if (pipe(fd) != 0) { out = runPIUnguarded(mod, rep, G, h, tol); return true; }
    std::fflush(stdout);
    const pid_t pid = fork();
    if (pid < 0) { close(fd[0]); close(fd[1]); out = runPIUnguarded(mod, rep, G, h, tol); return true; }
    const size_t n = G.S * G.A;
    if (pid == 0) {
        close(fd[0]);
        M::PolicyIteration fresh(h, tol);
        auto q = obj ? (*obj)(mod) : fresh(mod);          // `obj`: an existing solver object whose setters were used by the caller
        std::vector<double> buf(n);
        for (size_t s = 0; s < G.S; ++s) for (size_t a = 0; a < G.A; ++a) buf[s * G.A + a] = q(s, a);
        ssize_t w = write(fd[1], buf.data(), n * sizeof(double)); (void)w;
        _exit(0);
    }
    close(fd[1]);
    std::vector<double> buf(n); size_t got = 0; bool ok = true;
    while (got < n * sizeof(double)) {
        struct pollfd pf{fd[0], POLLIN, 0};
        int r = poll(&pf, 1, limitMs);
        if (r <= 0) { ok = false; break; }
        ssize_t k = read(fd[0], (char *)buf.data() + got, n * sizeof(double) - got);
        if (k <= 0) { ok = false; break; }
        got += (size_t)k;
    }
    close(fd[0]);
    if (!ok) kill(pid, SIGKILL);
    int st; waitpid(pid, &st, 0);
    Line l = head("pi", false, rep, G); l << h << tol << "|";
    if (!ok) { l << "timeout"; l.emit(); std::printf("#stat pi_timeout 1\n"); return false; }
    out.resize(G.S, G.A);
    for (size_t s = 0; s < G.S; ++s) for (size_t a = 0; a < G.A; ++a) out(s, a) = buf[s * G.A + a];
    putMat(l, out); l.emit();
    return true;
}

// every PolicyIteration call of the harness goes through the guard (10 s unless stated): `piOK` tells whether it returned
static bool piOK = true;
template <class Mod>
static AIToolbox::Matrix2D runPI(const Mod & mod, const char * rep, const Gen & G, unsigned h, double tol) {
    AIToolbox::Matrix2D q; piOK = runPIGuarded(mod, rep, G, h, tol, 10000, q);
    if (!piOK) { q.resize(G.S, G.A); q.setZero(); }
    return q;
}

struct LPRes { bool ok = false; double prec = 0; M::ValueFunction vf; M::QFunction q; };
// MDP::LinearProgramming::operator()<SparseModel> does not compile on the unchanged tree (RewardMatrix is an
// Eigen::SparseMatrix, `getRewardFunction()(s, a)` needs .coeff): tools/check.py compiles harness/c01_probe_lp_sparse.cpp
// and defines C01_HAVE_LP_SPARSE only when that instantiation compiles (see fixes/C01-1-lp-sparse-model.*).
template <class Mod>
static LPRes runLP(const Mod & mod, const char * rep, const Gen & G) {
    LPRes R;
#ifndef C01_HAVE_LP_SPARSE
    if constexpr (std::is_same_v<Mod, M::SparseModel>) { std::printf("#stat lp_sparse_not_instantiable 1\n"); return R; }
    else
#endif
    {
    Line l = head("lp", false, rep, G); l << "|";
    try {
        M::LinearProgramming lp;
        auto [prec, vf, q] = lp(mod);
        R.ok = true; R.prec = prec; R.vf = vf; R.q = q;
        l << true << prec; putVec(l, vf.values); putActs(l, vf.actions); putMat(l, q);
    } catch (const std::runtime_error & e) { l << false; }
    l.emit();
    }
    return R;
}

static void emitXrep(const char * what, bool exact, const Gen & G, const std::vector<AIToolbox::Vector> & vs) {
    Line l = head("xrep", exact, "dense", G); l << what << "|" << (size_t)vs.size();
    for (auto & v : vs) putVec(l, v);
    l.emit();
}

// ---- one case ----------------------------------------------------------------------------------------
static void runAll(Rng & rng, const Gen & G, const std::string & tier, bool forceEmptyActions = false) {
    const size_t S = G.S, A = G.A;
    M::Model dense(S, A, G.t, G.r, G.g);
    M::SparseModel sparse(S, A, G.t, G.r, G.g);
    GenericModel generic{S, A, G.g, &G.t, &G.r};
    M::Experience exp(S, A);
    for (size_t s = 0; s < S; ++s) for (size_t a = 0; a < A; ++a) for (size_t s1 = 0; s1 < S; ++s1)
        for (unsigned k = 0; k < G.cnt[s][a][s1]; ++k) exp.record(s, a, s1, dense.getRewardFunction()(s, a));
    M::MaximumLikelihoodModel<M::Experience> learned(exp, G.g, true);
    // further learned representations: sparse experience and/or sparse maximum-likelihood model over the same history
    M::SparseExperience sexp(S, A);
    for (size_t s = 0; s < S; ++s) for (size_t a = 0; a < A; ++a) for (size_t s1 = 0; s1 < S; ++s1)
        for (unsigned k = 0; k < G.cnt[s][a][s1]; ++k) sexp.record(s, a, s1, dense.getRewardFunction()(s, a));
    M::SparseMaximumLikelihoodModel<M::Experience> learnedSp(exp, G.g, true);
    M::MaximumLikelihoodModel<M::SparseExperience> learnedSx(sexp, G.g, true);
    M::SparseMaximumLikelihoodModel<M::SparseExperience> learnedSpSx(sexp, G.g, true);

#define ALLREPS(CALL) { std::vector<AIToolbox::Vector> vs; \
        { const auto & mod = dense;   const char * rep = "dense";   vs.push_back(CALL); } \
        { const auto & mod = sparse;  const char * rep = "sparse";  vs.push_back(CALL); } \
        { const auto & mod = learned; const char * rep = "learned"; vs.push_back(CALL); } \
        { const auto & mod = learnedSp; const char * rep = "learned_sp"; vs.push_back(CALL); } \
        { const auto & mod = learnedSx; const char * rep = "learned_sx"; vs.push_back(CALL); } \
        { const auto & mod = learnedSpSx; const char * rep = "learned_spsx"; vs.push_back(CALL); } \
        { const auto & mod = generic; const char * rep = "generic"; vs.push_back(CALL); } \
        xrepOut = vs; }
    std::vector<AIToolbox::Vector> xrepOut;

    // (1) tolerance 0, horizon h in 0..8: exactly the h-step DP values (bit-exact on dyadic MDPs)
    {
        unsigned h = (unsigned)rng.range(0, 8);
        Warm none;
        ALLREPS(runVI(mod, rep, G, G.dyadic, h, 0.0, none));
        emitXrep("vi_dp", G.dyadic, G, xrepOut);
        // a tolerance below equalToleranceSmall does not enable the stopping rule either
        if (rng.coin(1, 4)) { unsigned h2 = (unsigned)rng.range(1, 6); runVI(dense, "dense", G, G.dyadic, h2, 1e-7, none); runVI(generic, "generic", G, G.dyadic, h2, 5e-7, none); }
    }
    // (2) warm start (values and actions of size S), tolerance 0, short horizon
    {
        Warm w; w.on = true; w.vf.values.resize(S); w.vf.actions.assign(S, 0);
        for (size_t s = 0; s < S; ++s) { w.vf.values[s] = G.dyadic ? 0.5 * (double)rng.range(-8, 8) : 0.3 * (double)rng.range(-8, 8); w.vf.actions[s] = rng.below(A); }
        unsigned h = (unsigned)rng.range(0, 4);
        // the constructor documents "the initial value function from which to start the loop" and only requires its size to match
        // S; the actions of a start are never read, so `ValueFunction{values}` (empty actions) is the natural way to pass one
        if (forceEmptyActions && h == 0) h = 3;
        if (forceEmptyActions || rng.coin(1, 3)) { w.vf.actions.clear(); std::printf("#stat warm_empty_actions 1\n"); }
        ALLREPS(runVI(mod, rep, G, G.dyadic, h, 0.0, w));
        // wrong-size warm start is ignored
        if (rng.coin(1, 4)) { Warm bad; bad.on = true; bad.vf.values.resize(S + 1); bad.vf.values.setOnes(); bad.vf.actions.assign(S + 1, 0); runVI(dense, "dense", G, G.dyadic, 2, 0.0, bad); }
    }
    // (3) policy evaluation of a random stochastic policy: tolerance 0 (exact h-step value) and tolerance run
    {
        AIToolbox::Matrix2D pol(S, A);
        for (size_t s = 0; s < S; ++s) {
            std::vector<unsigned> c(A, 0); for (int k = 0; k < 4; ++k) c[rng.below(A)] += 1;
            for (size_t a = 0; a < A; ++a) pol(s, a) = 0.25 * c[a];
        }
        unsigned h = (unsigned)rng.range(0, 6);
        ALLREPS(runPE(mod, rep, G, G.dyadic, h, 0.0, nullptr, pol));
        emitXrep("pe_dp", G.dyadic, G, xrepOut);
        static const double tols[] = {1e-3, 1e-2, 0.25, 2e-6};
        double tol = tols[rng.below(4)];
        ALLREPS(runPE(mod, rep, G, false, 2000, tol, nullptr, pol));
        emitXrep("pe_tol", false, G, xrepOut);
        AIToolbox::Vector warm(S); for (size_t s = 0; s < S; ++s) warm[s] = 0.5 * (double)rng.range(-8, 8);
        runPE(dense, "dense", G, G.dyadic, (unsigned)rng.range(0, 3), 0.0, &warm, pol);
        runPE(generic, "generic", G, G.dyadic, (unsigned)rng.range(0, 3), 0.0, &warm, pol);
    }
    // (4) converged runs: VI, PI, LP on every representation; pairwise agreement
    {
        static const double tols[] = {1e-3, 1e-4, 1e-2, 0.5, 2e-6};
        const double tolVI = tols[rng.below(5)], tolPI = tols[rng.below(3)];
        Warm none;
        std::vector<AIToolbox::Vector> vvi, vlp;
        std::vector<M::Actions> avi; std::vector<AIToolbox::Matrix2D> qpi, qlp; std::vector<double> precs;
        auto doRep = [&](const auto & mod, const char * rep) {
            M::ValueIteration vi(100000, tolVI);
            auto [var, vf, q] = vi(mod);
            { Line l = head("vi", false, rep, G); l << 100000u << tolVI << false << "|" << var; putVec(l, vf.values); l.nats(vf.actions); putMat(l, q); l.emit(); }
            auto qp = runPI(mod, rep, G, 100000, tolPI);
            const bool piReturned = piOK && qp.allFinite();
            auto lr = runLP(mod, rep, G);
            if (lr.ok && piReturned) {
                Line l = head("agree", false, rep, G); l << tolVI << tolPI << lr.prec << "|";
                putVec(l, vf.values); putActs(l, vf.actions); putMat(l, qp); putVec(l, lr.vf.values); putMat(l, lr.q); l.emit();
                vlp.push_back(lr.vf.values);
            }
            vvi.push_back(vf.values);
        };
        doRep(dense, "dense"); doRep(sparse, "sparse"); doRep(learned, "learned"); doRep(generic, "generic");
        doRep(learnedSp, "learned_sp"); doRep(learnedSpSx, "learned_spsx");
        emitXrep("vi_tol", false, G, vvi);
        if (vlp.size() == vvi.size()) emitXrep("lp", false, G, vlp);
    }
    // (4b) ThompsonModel: a posterior *sample* of the MDP; it is its own MDP (tables read back through the public getters),
    //      solved through the Eigen path and, wrapped in the query-only struct, through the generic path
    {
        M::ThompsonModel<M::Experience> th(exp, G.g);
        Gen G2; G2.S = S; G2.A = A; G2.g = G.g; G2.dyadic = false;
        G2.t.assign(S, std::vector<std::vector<double>>(A, std::vector<double>(S, 0.0))); G2.r = G2.t;
        for (size_t s = 0; s < S; ++s) for (size_t a = 0; a < A; ++a) for (size_t s1 = 0; s1 < S; ++s1) {
            G2.t[s][a][s1] = th.getTransitionProbability(s, a, s1); G2.r[s][a][s1] = th.getExpectedReward(s, a, s1); }
        GenericModel thGeneric{S, A, G.g, &G2.t, &G2.r};
        Warm none; unsigned h = (unsigned)rng.range(0, 8);
        std::vector<AIToolbox::Vector> vs;
        vs.push_back(runVI(th, "thompson", G2, false, h, 0.0, none));
        vs.push_back(runVI(thGeneric, "generic", G2, false, h, 0.0, none));
        emitXrep("vi_dp_thompson", false, G2, vs);
        const double tolVI = 1e-3, tolPI = 1e-3;
        M::ValueIteration vi(100000, tolVI);
        auto [var, vf, q] = vi(th);
        { Line l = head("vi", false, "thompson", G2); l << 100000u << tolVI << false << "|" << var; putVec(l, vf.values); l.nats(vf.actions); putMat(l, q); l.emit(); }
        auto qp = runPI(th, "thompson", G2, 100000, tolPI);
        const bool piReturned = piOK && qp.allFinite();
        auto lr = runLP(th, "thompson", G2);
        if (lr.ok && piReturned) { Line l = head("agree", false, "thompson", G2); l << tolVI << tolPI << lr.prec << "|";
            putVec(l, vf.values); putActs(l, vf.actions); putMat(l, qp); putVec(l, lr.vf.values); putMat(l, lr.q); l.emit(); }
        std::printf("#stat thompson 1\n");
    }
    // (5) policy iteration with tolerance 0 and a short horizon (optimistic PI): only where it is known to stop quickly
    if (tier == "thorough" ? rng.coin(1, 2) : rng.coin(1, 4)) {
        unsigned h = (unsigned)rng.range(20, 40);
        runPI(dense, "dense", G, h, 0.0);
        runPI(generic, "generic", G, h, 0.0);
    }
}


// ---- (6) solver objects reused across calls and models: v1_ / vParameter_ are the state "carried between calls" ------------
// Every emitted line is self-contained (the driver checks it like a fresh call), so any leak of state from an earlier call
// (moved-from v1_, a start vector of another size, a stale tolerance/horizon) shows up as a failed clause on that line.
template <class Mod>
static void runReuse(Rng & rng, const Mod & mod, const char * rep, const Gen & G) {
    const size_t S = G.S, A = G.A;
    M::Model other(S + 1 + rng.below(2), A, G.g);                 // a model of another size solved by the same object in between
    unsigned h1 = (unsigned)rng.range(1, 5), h2 = (unsigned)rng.range(0, 5);
    M::ValueIteration vi(h1, 0.0);
    // the three-argument constructors (start vector given at construction)
    {
        Warm w0; w0.on = true; w0.vf.values.resize(S); w0.vf.actions.assign(S, 0);
        for (size_t s = 0; s < S; ++s) w0.vf.values[s] = 0.25 * (double)rng.range(-8, 8);
        M::ValueIteration vi3(h1, 0.0, w0.vf);
        auto [var, vf, q] = vi3(mod);
        Line l = head("vi", G.dyadic, rep, G); l << h1 << 0.0 << true << (size_t)S; putVec(l, w0.vf.values); l.nats(w0.vf.actions);
        l << "|" << var; putVec(l, vf.values); l.nats(vf.actions); putMat(l, q); l.emit();
    }
    auto emitVI = [&](unsigned h, double tol, const Warm & w, const std::tuple<double, M::ValueFunction, M::QFunction> & out) {
        const auto & [var, vf, q] = out;
        Line l = head("vi", G.dyadic, rep, G); l << h << tol << w.on;
        if (w.on) { l << (size_t)w.vf.values.size(); putVec(l, w.vf.values); l.nats(w.vf.actions); }
        l << "|" << var; putVec(l, vf.values); l.nats(vf.actions); putMat(l, q); l.emit();
    };
    Warm none;
    emitVI(h1, 0.0, none, vi(mod));                                // first call
    (void)vi(other);                                               // different S: start vector of the previous size must not leak
    emitVI(h1, 0.0, none, vi(mod));                                // same object, same answer
    // setters between calls: horizon, then a start vector, then removing it again (empty = default zeros)
    vi.setHorizon(h2);
    emitVI(h2, 0.0, none, vi(mod));
    Warm w; w.on = true; w.vf.values.resize(S); w.vf.actions.assign(S, 0);
    for (size_t s = 0; s < S; ++s) w.vf.values[s] = 0.5 * (double)rng.range(-8, 8);
    vi.setValueFunction(w.vf);
    const bool getterOK = vi.getHorizon() == h2 && vi.getTolerance() == 0.0 && vi.getValueFunction().values.size() == (long)S;
    emitVI(h2, 0.0, w, vi(mod));
    (void)vi(other);                                               // the start has S entries, `other` has more: ignored there
    emitVI(h2, 0.0, w, vi(mod));                                   // ... and still used here
    vi.setValueFunction(M::ValueFunction{});                       // back to the default start
    emitVI(h2, 0.0, none, vi(mod));
    vi.setTolerance(0.25);
    emitVI(h2, 0.25, none, vi(mod));
    std::printf("#stat reuse_vi_calls 9\n#stat reuse_getters_%s 1\n", getterOK ? "ok" : "BAD");
    if (!getterOK) { Line l; l << "C01" << "getter" << rep << "ValueIteration"; l.emit(); }
    // negative tolerance is rejected (documented), and the object keeps its previous tolerance
    bool threw = false; try { vi.setTolerance(-1.0); } catch (const std::exception &) { threw = true; }
    { Line l; l << "C01" << "settol" << "ValueIteration" << threw << vi.getTolerance() << 0.25; l.emit(); }
    // PolicyEvaluation object: two calls with setValues in between (exactly what PolicyIteration does)
    AIToolbox::Matrix2D pol(S, A);
    for (size_t s = 0; s < S; ++s) { std::vector<unsigned> c(A, 0); for (int k = 0; k < 4; ++k) c[rng.below(A)] += 1; for (size_t a = 0; a < A; ++a) pol(s, a) = 0.25 * c[a]; }
    M::Policy policy(pol);
    unsigned hp = (unsigned)rng.range(1, 3);
    M::PolicyEvaluation<Mod> pe(mod, hp, 0.0);
    auto emitPE = [&](unsigned h, const AIToolbox::Vector * warm, const std::tuple<double, M::Values, M::QFunction> & out) {
        const auto & [var, v, q] = out;
        Line l = head("pe", G.dyadic, rep, G); l << h << 0.0 << (warm != nullptr);
        if (warm) { l << (size_t)warm->size(); putVec(l, *warm); }
        putMat(l, pol); l << "|" << var; putVec(l, v); putMat(l, q); l.emit();
    };
    {
        AIToolbox::Vector w0(S); for (size_t s = 0; s < S; ++s) w0[s] = 0.25 * (double)rng.range(-8, 8);
        M::PolicyEvaluation<Mod> pe4(mod, hp, 0.0, w0);
        emitPE(hp, &w0, pe4(policy));
    }
    auto o1 = pe(policy); emitPE(hp, nullptr, o1);
    AIToolbox::Vector carried = std::get<1>(o1);
    pe.setValues(carried);                                          // warm start from the previous result
    auto o2 = pe(policy); emitPE(hp, &carried, o2);
    auto o3 = pe(policy); emitPE(hp, &carried, o3);                 // the parameter is not consumed by a call
    pe.setValues(AIToolbox::Vector(S + 1));                         // wrong size: ignored, zeros
    AIToolbox::Vector bad(S + 1); bad.setOnes();
    pe.setValues(bad);
    auto o4 = pe(policy); emitPE(hp, &bad, o4);
    bool threwPE = false; try { pe.setTolerance(-0.5); } catch (const std::exception &) { threwPE = true; }
    { Line l; l << "C01" << "settol" << "PolicyEvaluation" << threwPE << pe.getTolerance() << 0.0; l.emit(); }
    std::printf("#stat reuse_pe_calls 5\n");
    // PolicyIteration object: constructed with other parameters, then set; a rejected setter in between
    {
        M::PolicyIteration pi(3, 0.5);
        pi.setHorizon(100000); pi.setTolerance(1e-3);
        bool threwPI = false; try { pi.setTolerance(-2.0); } catch (const std::exception &) { threwPI = true; }
        { Line l; l << "C01" << "settol" << "PolicyIteration" << threwPI << pi.getTolerance() << 1e-3; l.emit(); }
        AIToolbox::Matrix2D q;
        runPIGuarded(mod, rep, G, pi.getHorizon(), pi.getTolerance(), 10000, q, &pi);
        pi.setTolerance(1e-2);
        runPIGuarded(mod, rep, G, 100000u, 1e-2, 10000, q, &pi);
        std::printf("#stat reuse_pi_calls 2\n");
    }
}

// ---- (7) QGreedyPolicy::getPolicy on structured Q rows (what PolicyIteration's stop test and evaluations consume) -------------
static void runGreedyTable(Rng & rng, int fixed) {
    size_t S = (size_t)rng.range(1, 4), A = (size_t)rng.range(1, 5);
    if (fixed >= 0) { S = 1; A = 3; }
    AIToolbox::Matrix2D q(S, A);
    for (size_t s = 0; s < S; ++s) {
        const int e = (int)rng.range(-3, 10);
        double base = std::pow(10.0, e) * (1.0 + 0.37 * (double)rng.below(5)) * (rng.coin() ? 1.0 : -1.0);
        if (rng.coin(1, 10)) base = 0.0;
        if (fixed >= 0) base = fixed == 3 ? 1e8 : fixed == 1 ? 0.0 : 1.0;
        int style = fixed >= 0 ? fixed : (int)rng.below(8);
        const double relgap = std::fabs(base) * 1e-11;
        std::printf("#stat gp_style%d 1\n#stat gp_mag_e%d 1\n", style, base == 0.0 ? -99 : e);
        for (size_t a = 0; a < A; ++a) {
            double v;
            switch (style) {
                case 0: v = base; break;                                                    // exact ties everywhere
                case 1: v = base + (double)a * 0.9e-6; break;                               // ascending chain at the absolute threshold
                case 2: v = base - (double)a * 0.9e-6; break;                               // descending chain
                case 3: v = base + (double)a * 0.9 * relgap; break;                         // ascending chain at the relative threshold
                case 4: v = base + ((a % 2) ? 1.0 : 0.0) * 0.5 * (relgap > 2e-6 ? relgap : 0.4e-6); break;   // two-level near tie
                case 5: v = base + ((a % 2) ? 1.0 : 0.0) * (relgap > 1e-6 ? 3.0 * relgap : 3e-6); break;     // clearly separated two levels
                case 6: v = base * (1.0 + 0.01 * (double)rng.range(-5, 5)); break;          // distinct
                default: v = (a == rng.below(A) ? (0.1 + 0.2) : 0.3) * base; break;         // rounding-level tie
            }
            q(s, a) = v;
        }
        if (fixed < 0 && rng.coin(1, 3)) { // shuffle the row so the chain is not always ascending by index
            for (size_t a = A; a > 1; --a) { size_t j = rng.below(a); std::swap(q(s, a - 1), q(s, j)); }
        }
    }
    M::QGreedyPolicy p(q);
    auto m = p.getPolicy();
    Line l; l << "C01" << "gp" << S << A; putMat(l, q); l << "|"; putMat(l, m);
    l.emit();
    // bellmanOperator(q) on the same table: the out-of-place form of the backup (first maximum per row)
    auto vf = M::bellmanOperator(q);
    Line l2; l2 << "C01" << "bop" << S << A; putMat(l2, q); l2 << "|"; l2 << (size_t)vf.values.size(); putVec(l2, vf.values); l2.nats(vf.actions); l2.emit();
}

// ---- (8) large reward scales with near-tied optimal actions -----------------------------------------------------------------
// |V| from 1e5 to 1e10; in every state two or three actions share a transition row and have rewards that differ at rounding level
// ((0.1+0.2)c vs 0.3c), by a gap between equalToleranceSmall and equalToleranceGeneral*|Q| (c vs c+5e-5 at c=2.5e7), or form a
// chain a~b~c with a!~c.  The other actions are clearly worse.  Solved by VI, PI, LP on dense, sparse and query-only models.
static Gen genBig(Rng & rng, int fixed, int & tieStyle, bool thorough) {
    Gen G; G.dyadic = false; G.den = 8;
    G.S = (size_t)rng.range(1, thorough ? 9 : 5); G.A = (size_t)rng.range(2, thorough ? 6 : 4);
    static const double gs[] = {0.5, 0.75, 0.9, 0.95, 0.25};
    G.g = gs[rng.below(5)];
    int e = (int)rng.range(5, 10);
    double c = std::pow(10.0, e) * (1.0 - G.g) * (rng.coin() ? 1.0 : 2.5);
    tieStyle = (int)rng.below(4);        // 0 rounding-level, 1 gap in (tolSmall, tolGeneral*|Q|), 2 chain, 3 exact tie
    int signStyle = (int)rng.below(3);   // 0 rewards, 1 costs, 2 mixed by state
    if (fixed == 0) { G.S = 1; G.A = 3; G.g = 0.9; c = 1e7; tieStyle = 2; signStyle = 0; }          // chain witness (PI diverges)
    if (fixed == 1) { G.S = 2; G.A = 2; G.g = 0.9; c = 2.5e7; tieStyle = 1; signStyle = 1; }        // c vs c+5e-5 at 2.5e7 (costs)
    if (fixed == 2) { G.S = 3; G.A = 3; G.g = 0.9; c = 2.5e7; tieStyle = 0; signStyle = 2; }        // (0.1+0.2)c vs 0.3c
    if (fixed == 3) { G.S = 4; G.A = 2; G.g = 0.9; c = 8e8; tieStyle = 3; signStyle = 0; }          // positive values near 8e9 (LP)
    if (tieStyle == 2 && G.A < 3) G.A = 3;
    const double vmag = c / (1.0 - G.g);
    G.t.assign(G.S, std::vector<std::vector<double>>(G.A, std::vector<double>(G.S, 0.0))); G.r = G.t;
    for (size_t s = 0; s < G.S; ++s) {
        const double sgn = signStyle == 0 ? 1.0 : signStyle == 1 ? -1.0 : ((s % 2) ? -1.0 : 1.0);
        static const double ks[] = {1.0, 1.25, 0.75, 1.5, 0.5};
        const double k = fixed >= 0 ? 1.0 : ks[rng.below(5)];
        // the tied actions: a contiguous ascending block so that chains are ascending by index
        size_t nt = tieStyle == 2 ? 3 : (G.A >= 3 && rng.coin(1, 3) ? 3 : 2);
        size_t first = rng.below(G.A - nt + 1);
        std::vector<unsigned> rowT(G.S, 0), rowO(G.S, 0);
        for (unsigned i = 0; i < 8; ++i) { rowT[rng.below(G.S)] += 1; rowO[rng.below(G.S)] += 1; }
        if (rng.coin(1, 4)) { std::fill(rowT.begin(), rowT.end(), 0u); rowT[s] = 4; rowT[rng.below(G.S)] += 4; }   // stochastic self-loop
        for (size_t a = 0; a < G.A; ++a) {
            const bool tied = a >= first && a < first + nt;
            const size_t j = a - first;
            double r;
            if (!tied) r = sgn * k * c - (0.1 + 0.05 * (double)rng.below(4)) * c;          // clearly worse
            else switch (tieStyle) {
                case 0: r = sgn * k * ((j % 2) ? 0.3 * c : (0.1 + 0.2) * c) / 0.3; break;
                case 1: r = sgn * k * c + (double)j * (fixed == 1 ? 5e-5 : std::max(2e-6, 0.2 * 1e-11 * vmag * k)); break;
                case 2: r = sgn * k * c + (double)j * std::max(0.9e-6, 0.9 * 1e-11 * vmag * k * (signStyle == 0 ? 1.0 : 0.5)); break;
                default: r = sgn * k * c; break;
            }
            for (size_t s1 = 0; s1 < G.S; ++s1) { G.t[s][a][s1] = 0.125 * (double)(tied ? rowT[s1] : rowO[s1]); G.r[s][a][s1] = r; }
        }
    }
    std::printf("#stat big 1\n#stat big_vmag_e%d 1\n#stat big_tie%d 1\n#stat big_sign%d 1\n#stat big_S%zu 1\n", e, tieStyle, signStyle, G.S);
    return G;
}

static void runBig(Rng & rng, int fixed, bool thorough = false) {
    int tieStyle = 0;
    Gen G = genBig(rng, fixed, tieStyle, thorough);
    const size_t S = G.S, A = G.A;
    M::Model dense(S, A, G.t, G.r, G.g);
    M::SparseModel sparse(S, A, G.t, G.r, G.g);
    GenericModel generic{S, A, G.g, &G.t, &G.r};
    static const double tols[] = {1e-3, 1e-4, 1e-2};
    const double tolVI = tols[rng.below(3)], tolPI = fixed == 0 ? 1e-4 : tols[rng.below(3)];
    Warm none;
    unsigned h = (unsigned)rng.range(1, 6);
    std::vector<AIToolbox::Vector> dp, vvi, vlp;
    auto doRep = [&](const auto & mod, const char * rep) {
        dp.push_back(runVI(mod, rep, G, false, h, 0.0, none));
        M::ValueIteration vi(1000000, tolVI);
        auto [var, vf, q] = vi(mod);
        { Line l = head("vi", false, rep, G); l << 1000000u << tolVI << false << "|" << var; putVec(l, vf.values); l.nats(vf.actions); putMat(l, q); l.emit(); }
        AIToolbox::Matrix2D qp;
        const bool piOK = runPIGuarded(mod, rep, G, 20000, tolPI, 2500, qp);
        auto lr = runLP(mod, rep, G);
        if (lr.ok && piOK && qp.allFinite()) {
            Line l = head("agree", false, rep, G); l << tolVI << tolPI << lr.prec << "|";
            putVec(l, vf.values); putActs(l, vf.actions); putMat(l, qp); putVec(l, lr.vf.values); putMat(l, lr.q); l.emit();
        }
        if (lr.ok) vlp.push_back(lr.vf.values);
        vvi.push_back(vf.values);
    };
    doRep(dense, "dense"); doRep(sparse, "sparse"); doRep(generic, "generic");
    emitXrep("vi_dp_big", false, G, dp);
    emitXrep("vi_tol_big", false, G, vvi);
    if (vlp.size() == vvi.size()) emitXrep("lp_big", false, G, vlp);
}

// ---- (9) an ordinary small MDP on which PolicyIteration returns NaN (finding C01-3 at the ABSOLUTE threshold): S=2, A=4, gamma=3/4, rewards 0 / -0.75,
// V* = 0 with several equally good actions.  While PI converges all Q(s,.) approach 0 and pass through a chain of gaps around 1e-6: round 2 meets the row
// [-2.10749e-3, -2.10657e-3, -2.10696e-3, -2.10624e-3] -> getPolicy = [0,1,1,1] (weight 3), the evaluation diverges to -inf/NaN.
// (Found by the random stream, quick seed 4 case 98, on a ThompsonModel sample; the tables below are that sample, bit for bit.)
static void runSmallChainWitness(Rng & rng) {
    Gen G; G.S = 2; G.A = 4; G.g = std::ldexp(3.0, -2); G.dyadic = false;
    G.t = {{{std::ldexp(8486653175586151.0, -53), std::ldexp(1041092158309683.0, -54)}, {std::ldexp(4431706994406191.0, -52), std::ldexp(575141063714441.0, -55)}, {std::ldexp(8702890540251835.0, -53), std::ldexp(4868939431826513.0, -57)}, {std::ldexp(8995913040193113.0, -53), std::ldexp(11286214547879.0, -53)}},
            {{std::ldexp(7640827666289283.0, -56), std::ldexp(8052095796454831.0, -53)}, {std::ldexp(2649299807161345.0, -52), std::ldexp(3708599640418301.0, -53)}, {std::ldexp(6781951722811997.0, -56), std::ldexp(2039863822347373.0, -51)}, {std::ldexp(2324508030074153.0, -52), std::ldexp(4358183194592685.0, -53)}}};
    G.r = {{{std::ldexp(0.0, 0), std::ldexp(0.0, 0)}, {std::ldexp(0.0, 0), std::ldexp(0.0, 0)}, {std::ldexp(0.0, 0), std::ldexp(0.0, 0)}, {std::ldexp(0.0, 0), std::ldexp(0.0, 0)}},
            {{std::ldexp(0.0, 0), std::ldexp(0.0, 0)}, {std::ldexp(0.0, 0), std::ldexp(0.0, 0)}, {std::ldexp(-3.0, -2), std::ldexp(-3.0, -2)}, {std::ldexp(0.0, 0), std::ldexp(0.0, 0)}}};
    GenericModel generic{G.S, G.A, G.g, &G.t, &G.r};
    // the rows are a posterior sample: normalised to rounding, which MDP::Model's constructor accepts
    M::Model dense(G.S, G.A, G.t, G.r, G.g);
    M::SparseModel sparse(G.S, G.A, G.t, G.r, G.g);
    Warm none; (void)rng;
    auto one = [&](const auto & mod, const char * rep) {
        M::ValueIteration vi(100000, 1e-3);
        auto [var, vf, q] = vi(mod);
        { Line l = head("vi", false, rep, G); l << 100000u << 1e-3 << false << "|" << var; putVec(l, vf.values); l.nats(vf.actions); putMat(l, q); l.emit(); }
        auto qp = runPI(mod, rep, G, 100000, 1e-3);
        const bool piReturned = piOK;
        auto lr = runLP(mod, rep, G);
        if (lr.ok && piReturned && qp.allFinite()) {
            Line l = head("agree", false, rep, G); l << 1e-3 << 1e-3 << lr.prec << "|";
            putVec(l, vf.values); putActs(l, vf.actions); putMat(l, qp); putVec(l, lr.vf.values); putMat(l, lr.q); l.emit();
        }
    };
    one(dense, "dense"); one(sparse, "sparse"); one(generic, "generic");
    std::printf("#stat small_chain_witness 1\n");
}

long verif::verif_ncases(const std::string & tier) { return tier == "thorough" ? 800 : 160; }

// hand-written low-index cases
static Gen fixedCase(long idx) {
    Gen G;
    if (idx == 0) {            // S=1, A=1, negative reward, self loop
        G.S = 1; G.A = 1; G.g = 0.5; G.den = 8;
        G.t = {{{1.0}}}; G.r = {{{-1.0}}}; G.cnt = {{{8}}};
    } else if (idx == 1) {     // two states, exact tie between actions everywhere (first maximum must win)
        G.S = 2; G.A = 3; G.g = 0.75; G.den = 8;
        G.t.assign(2, std::vector<std::vector<double>>(3, std::vector<double>(2, 0.5)));
        G.r.assign(2, std::vector<std::vector<double>>(3, std::vector<double>(2, 1.0)));
        G.cnt.assign(2, std::vector<std::vector<unsigned>>(3, std::vector<unsigned>(2, 4)));
    } else {                   // negative rewards, stochastic self-loop, A=1 in effect (both actions identical) except reward sign
        G.S = 3; G.A = 2; G.g = 0.875; G.den = 8;
        G.t = {{{0.5, 0.5, 0.0}, {0.0, 0.0, 1.0}}, {{0.0, 0.25, 0.75}, {1.0, 0.0, 0.0}}, {{0.0, 0.0, 1.0}, {0.0, 0.0, 1.0}}};
        G.r = {{{-1.0, -2.0, 0.0}, {0.0, 0.0, -4.0}}, {{0.0, -0.5, 1.5}, {-3.0, 0.0, 0.0}}, {{0.0, 0.0, -0.25}, {0.0, 0.0, -0.5}}};
        G.cnt = {{{4, 4, 0}, {0, 0, 8}}, {{0, 2, 6}, {8, 0, 0}}, {{0, 0, 8}, {0, 0, 8}}};
    }
    return G;
}

void verif::verif_case(Rng & rng, long idx, const std::string & tier) {
    AIToolbox::Seeder::setRootSeed((unsigned)rng.next());     // ThompsonModel & co. draw from the library's global seeder: make every case replayable
    if (idx < 3) { Gen G = fixedCase(idx); runAll(rng, G, tier, idx == 2); return; }
    if (idx < 7) { runBig(rng, (int)idx - 3); return; }                       // fixed large-scale near-tie witnesses
    if (idx < 10) { runGreedyTable(rng, idx == 7 ? 1 : idx == 8 ? 3 : 2); return; }   // fixed greedy rows: chains at both thresholds
    if (idx == 10) { runSmallChainWitness(rng); return; }
    if (idx % 8 == 5) { runBig(rng, -1, tier == "thorough"); for (int k = 0; k < 6; ++k) runGreedyTable(rng, -1); return; }
    const bool ugly = (idx % 4 == 3);
    Gen G = genMDP(rng, tier, ugly);
    runAll(rng, G, tier);
    if (G.dyadic && idx % 2 == 0) {
        M::Model dense(G.S, G.A, G.t, G.r, G.g);
        M::SparseModel sparse(G.S, G.A, G.t, G.r, G.g);
        GenericModel generic{G.S, G.A, G.g, &G.t, &G.r};
        runReuse(rng, dense, "dense", G); runReuse(rng, generic, "generic", G);
        if (idx % 4 == 0) runReuse(rng, sparse, "sparse", G);
    }
}

VERIF_MAIN
