// C01 correspondence harness: MDP planners (ValueIteration, PolicyEvaluation, PolicyIteration, LinearProgramming)
// on the same MDP supplied through four representations:
//   dense   MDP::Model                          (IsModelEigen)
//   sparse  MDP::SparseModel                    (IsModelEigen, sparse kernels)
//   learned MDP::MaximumLikelihoodModel<Experience> over a synthetic experience whose counts reproduce T
//   generic a user-defined struct that only answers probability / reward queries (NOT IsModelEigen: generic triple loops)
// Every double crosses as an exact token; the Lean driver re-runs its model and evaluates the property clauses.
#include "common/verif.hpp"
#include <AIToolbox/MDP/Model.hpp>
#include <AIToolbox/MDP/SparseModel.hpp>
#include <AIToolbox/MDP/Experience.hpp>
#include <AIToolbox/MDP/MaximumLikelihoodModel.hpp>
#include <AIToolbox/MDP/SparseExperience.hpp>
#include <AIToolbox/MDP/SparseMaximumLikelihoodModel.hpp>
#include <AIToolbox/MDP/ThompsonModel.hpp>
#include <AIToolbox/MDP/Algorithms/ValueIteration.hpp>
#include <AIToolbox/MDP/Algorithms/PolicyIteration.hpp>
#include <AIToolbox/MDP/Algorithms/LinearProgramming.hpp>
#include <AIToolbox/MDP/Algorithms/Utils/PolicyEvaluation.hpp>
#include <AIToolbox/MDP/Policies/Policy.hpp>

using namespace verif;
namespace M = AIToolbox::MDP;
using T3 = std::vector<std::vector<std::vector<double>>>;

// ---- the user-defined, probability-query-only model -------------------------------------------
struct GenericModel {
    size_t S, A; double discount; const T3 * t; const T3 * r;
    size_t getS() const { return S; }
    size_t getA() const { return A; }
    double getDiscount() const { return discount; }
    double getTransitionProbability(size_t s, size_t a, size_t s1) const { return (*t)[s][a][s1]; }
    double getExpectedReward(size_t s, size_t a, size_t s1) const { return (*r)[s][a][s1]; }
    std::tuple<size_t, double> sampleSR(size_t s, size_t a) const {
        // deterministic "sample": most likely successor (never used by the planners)
        size_t best = 0; for (size_t s1 = 1; s1 < S; ++s1) if ((*t)[s][a][s1] > (*t)[s][a][best]) best = s1;
        return {best, (*r)[s][a][best]};
    }
    bool isTerminal(size_t) const { return false; }
};
static_assert(M::IsModel<GenericModel>, "GenericModel must satisfy IsModel");
static_assert(!M::IsModelEigen<GenericModel>, "GenericModel must NOT be an Eigen model (generic path)");
static_assert(M::IsModelEigen<M::Model> && M::IsModelEigen<M::SparseModel> && M::IsModelEigen<M::MaximumLikelihoodModel<M::Experience>>);
static_assert(M::IsModelEigen<M::SparseMaximumLikelihoodModel<M::SparseExperience>> && M::IsModelEigen<M::ThompsonModel<M::Experience>>);

// ---- generated MDP ------------------------------------------------------------------------------
struct Gen {
    size_t S = 1, A = 1; double g = 0.5;
    T3 t, r;           // t[s][a][s1] as every representation will hold it; r[s][a][s1]
    std::vector<std::vector<std::vector<unsigned>>> cnt;   // counts reproducing t = cnt * (1.0 / den)
    unsigned den = 8;
    bool dyadic = true;
};

static Gen genMDP(Rng & rng, const std::string & tier, bool ugly) {
    Gen G;
    const bool th = tier == "thorough";
    G.S = (size_t)rng.range(1, th ? 12 : 6);
    G.A = (size_t)rng.range(1, th ? 6 : 4);
    if (rng.coin(1, 8)) G.A = 1;
    if (rng.coin(1, 16)) G.S = 1;
    G.dyadic = !ugly;
    if (!ugly) { static const double gs[] = {0.5, 0.75, 0.875}; G.g = gs[rng.below(3)]; G.den = 8; }
    else { static const double gs[] = {0.9, 0.95, 1.0 / 3.0, 0.5, 0.99, 0.1}; G.g = gs[rng.below(6)];
           static const unsigned ds[] = {10, 3, 7, 12}; G.den = ds[rng.below(4)]; }
    const double rec = 1.0 / G.den;
    // reward style
    const int rstyle = (int)rng.below(5);   // 0 mixed sign, 1 all negative, 2 all positive, 3 sparse, 4 large scale
    const double scale = std::ldexp(1.0, (int)rng.range(-4, 6));
    G.t.assign(G.S, std::vector<std::vector<double>>(G.A, std::vector<double>(G.S, 0.0)));
    G.r = G.t; G.cnt.assign(G.S, std::vector<std::vector<unsigned>>(G.A, std::vector<unsigned>(G.S, 0)));
    // a set of states nobody moves into (unreachable) and absorbing states
    std::vector<char> unreachable(G.S, 0), absorbing(G.S, 0);
    for (size_t s = 0; s < G.S; ++s) { if (G.S > 2 && rng.coin(1, 6)) unreachable[s] = 1; if (rng.coin(1, 6)) absorbing[s] = 1; }
    std::vector<size_t> targets; for (size_t s = 0; s < G.S; ++s) if (!unreachable[s]) targets.push_back(s);
    if (targets.empty()) { targets.push_back(0); unreachable[0] = 0; }
    long nDet = 0, nSelf = 0;
    for (size_t s = 0; s < G.S; ++s) for (size_t a = 0; a < G.A; ++a) {
        auto & c = G.cnt[s][a];
        int style = (int)rng.below(6);       // 0,1 random spread; 2 deterministic; 3 stochastic self-loop; 4 two-point; 5 uniform-ish
        if (absorbing[s]) { c[s] = G.den; }
        else if (style == 2) { c[rng.pick(targets)] = G.den; ++nDet; }
        else if (style == 3) { unsigned k = (unsigned)rng.range(1, G.den - 1); c[s] += k; c[rng.pick(targets)] += G.den - k; ++nSelf; }
        else if (style == 4) { unsigned k = (unsigned)rng.range(1, G.den - 1); c[rng.pick(targets)] += k; c[rng.pick(targets)] += G.den - k; }
        else { for (unsigned k = 0; k < G.den; ++k) c[rng.pick(targets)] += 1; }
        for (size_t s1 = 0; s1 < G.S; ++s1) {
            G.t[s][a][s1] = (double)c[s1] * rec;
            double x;
            if (!ugly) x = 0.25 * (double)rng.range(-16, 16) * scale; else x = 0.1 * (double)rng.range(-30, 30) * (rstyle == 4 ? 37.0 : 1.0);
            if (rstyle == 1) x = -std::fabs(x); else if (rstyle == 2) x = std::fabs(x); else if (rstyle == 3 && !rng.coin(1, 4)) x = 0.0;
            G.r[s][a][s1] = x;
        }
    }
    std::printf("#stat S%zu 1\n#stat A%zu 1\n#stat %s 1\n#stat deterministic_rows %ld\n#stat selfloop_rows %ld\n", G.S, G.A, ugly ? "ugly" : "dyadic", nDet, nSelf);
    long nu = 0, na = 0; for (size_t s = 0; s < G.S; ++s) { nu += unreachable[s]; na += absorbing[s]; }
    std::printf("#stat unreachable_states %ld\n#stat absorbing_states %ld\n#stat rstyle%d 1\n", nu, na, rstyle);
    return G;
}

// ---- protocol helpers ------------------------------------------------------------------------------
static void putMDP(Line & l, const Gen & G) {
    l << G.S << G.A << G.g;
    for (size_t s = 0; s < G.S; ++s) for (size_t a = 0; a < G.A; ++a) for (size_t s1 = 0; s1 < G.S; ++s1) l << G.t[s][a][s1];
    for (size_t s = 0; s < G.S; ++s) for (size_t a = 0; a < G.A; ++a) for (size_t s1 = 0; s1 < G.S; ++s1) l << G.r[s][a][s1];
}
static void putVec(Line & l, const AIToolbox::Vector & v) { for (long i = 0; i < v.size(); ++i) l << v[i]; }
static void putMat(Line & l, const AIToolbox::Matrix2D & q) { for (long i = 0; i < q.rows(); ++i) for (long j = 0; j < q.cols(); ++j) l << (double)q(i, j); }
static void putActs(Line & l, const M::Actions & a) { for (auto x : a) l << (size_t)x; }
// mode: 1 = exact (dyadic inputs, short run), 2 = dyadic inputs but long run, 0 = non-dyadic inputs
static Line head(const char * op, bool exact, const char * rep, const Gen & G) { Line l; l << "C01" << op << (exact ? 1 : (G.dyadic ? 2 : 0)) << rep; putMDP(l, G); return l; }

struct Warm { bool on = false; M::ValueFunction vf; };

template <class Mod>
static AIToolbox::Vector runVI(const Mod & mod, const char * rep, const Gen & G, bool exact, unsigned h, double tol, const Warm & w) {
    M::ValueIteration vi(h, tol);
    if (w.on) vi.setValueFunction(w.vf);
    auto [var, vf, q] = vi(mod);
    Line l = head("vi", exact, rep, G); l << h << tol << w.on;
    if (w.on) { l << (size_t)w.vf.values.size(); putVec(l, w.vf.values); l.nats(w.vf.actions); }
    l << "|" << var; putVec(l, vf.values); l.nats(vf.actions); putMat(l, q); l.emit();
    return vf.values;
}

template <class Mod>
static AIToolbox::Vector runPE(const Mod & mod, const char * rep, const Gen & G, bool exact, unsigned h, double tol, const AIToolbox::Vector * warm, const AIToolbox::Matrix2D & pol) {
    M::PolicyEvaluation<Mod> pe(mod, h, tol);
    if (warm) pe.setValues(*warm);
    M::Policy policy(pol);
    auto [var, v, q] = pe(policy);
    Line l = head("pe", exact, rep, G); l << h << tol << (warm != nullptr);
    if (warm) { l << (size_t)warm->size(); putVec(l, *warm); }
    putMat(l, pol); l << "|" << var; putVec(l, v); putMat(l, q); l.emit();
    return v;
}

template <class Mod>
static AIToolbox::Matrix2D runPI(const Mod & mod, const char * rep, const Gen & G, unsigned h, double tol) {
    M::PolicyIteration pi(h, tol);
    auto q = pi(mod);
    Line l = head("pi", false, rep, G); l << h << tol << "|"; putMat(l, q); l.emit();
    return q;
}

struct LPRes { bool ok = false; double prec = 0; M::ValueFunction vf; M::QFunction q; };
// MDP::LinearProgramming::operator()<SparseModel> does not compile on the unchanged tree (RewardMatrix is an
// Eigen::SparseMatrix, `getRewardFunction()(s, a)` needs .coeff): tools/check.py compiles harness/c01_probe_lp_sparse.cpp
// and defines C01_HAVE_LP_SPARSE only when that instantiation compiles (see fixes/C01-1-lp-sparse-model.*).
template <class Mod>
static LPRes runLP(const Mod & mod, const char * rep, const Gen & G) {
    LPRes R;
#ifndef C01_HAVE_LP_SPARSE
    if constexpr (std::is_same_v<Mod, M::SparseModel>) { std::printf("#stat lp_sparse_not_instantiable 1\n"); return R; }
    else
#endif
    {
    Line l = head("lp", false, rep, G); l << "|";
    try {
        M::LinearProgramming lp;
        auto [prec, vf, q] = lp(mod);
        R.ok = true; R.prec = prec; R.vf = vf; R.q = q;
        l << true << prec; putVec(l, vf.values); putActs(l, vf.actions); putMat(l, q);
    } catch (const std::runtime_error & e) { l << false; }
    l.emit();
    }
    return R;
}

static void emitXrep(const char * what, bool exact, const Gen & G, const std::vector<AIToolbox::Vector> & vs) {
    Line l = head("xrep", exact, "dense", G); l << what << "|" << (size_t)vs.size();
    for (auto & v : vs) putVec(l, v);
    l.emit();
}

// ---- one case ----------------------------------------------------------------------------------------
static void runAll(Rng & rng, const Gen & G, const std::string & tier, bool forceEmptyActions = false) {
    const size_t S = G.S, A = G.A;
    M::Model dense(S, A, G.t, G.r, G.g);
    M::SparseModel sparse(S, A, G.t, G.r, G.g);
    GenericModel generic{S, A, G.g, &G.t, &G.r};
    M::Experience exp(S, A);
    for (size_t s = 0; s < S; ++s) for (size_t a = 0; a < A; ++a) for (size_t s1 = 0; s1 < S; ++s1)
        for (unsigned k = 0; k < G.cnt[s][a][s1]; ++k) exp.record(s, a, s1, dense.getRewardFunction()(s, a));
    M::MaximumLikelihoodModel<M::Experience> learned(exp, G.g, true);
    // further learned representations: sparse experience and/or sparse maximum-likelihood model over the same history
    M::SparseExperience sexp(S, A);
    for (size_t s = 0; s < S; ++s) for (size_t a = 0; a < A; ++a) for (size_t s1 = 0; s1 < S; ++s1)
        for (unsigned k = 0; k < G.cnt[s][a][s1]; ++k) sexp.record(s, a, s1, dense.getRewardFunction()(s, a));
    M::SparseMaximumLikelihoodModel<M::Experience> learnedSp(exp, G.g, true);
    M::MaximumLikelihoodModel<M::SparseExperience> learnedSx(sexp, G.g, true);
    M::SparseMaximumLikelihoodModel<M::SparseExperience> learnedSpSx(sexp, G.g, true);

#define ALLREPS(CALL) { std::vector<AIToolbox::Vector> vs; \
        { const auto & mod = dense;   const char * rep = "dense";   vs.push_back(CALL); } \
        { const auto & mod = sparse;  const char * rep = "sparse";  vs.push_back(CALL); } \
        { const auto & mod = learned; const char * rep = "learned"; vs.push_back(CALL); } \
        { const auto & mod = learnedSp; const char * rep = "learned_sp"; vs.push_back(CALL); } \
        { const auto & mod = learnedSx; const char * rep = "learned_sx"; vs.push_back(CALL); } \
        { const auto & mod = learnedSpSx; const char * rep = "learned_spsx"; vs.push_back(CALL); } \
        { const auto & mod = generic; const char * rep = "generic"; vs.push_back(CALL); } \
        xrepOut = vs; }
    std::vector<AIToolbox::Vector> xrepOut;

    // (1) tolerance 0, horizon h in 0..8: exactly the h-step DP values (bit-exact on dyadic MDPs)
    {
        unsigned h = (unsigned)rng.range(0, 8);
        Warm none;
        ALLREPS(runVI(mod, rep, G, G.dyadic, h, 0.0, none));
        emitXrep("vi_dp", G.dyadic, G, xrepOut);
        // a tolerance below equalToleranceSmall does not enable the stopping rule either
        if (rng.coin(1, 4)) { unsigned h2 = (unsigned)rng.range(1, 6); runVI(dense, "dense", G, G.dyadic, h2, 1e-7, none); runVI(generic, "generic", G, G.dyadic, h2, 5e-7, none); }
    }
    // (2) warm start (values and actions of size S), tolerance 0, short horizon
    {
        Warm w; w.on = true; w.vf.values.resize(S); w.vf.actions.assign(S, 0);
        for (size_t s = 0; s < S; ++s) { w.vf.values[s] = G.dyadic ? 0.5 * (double)rng.range(-8, 8) : 0.3 * (double)rng.range(-8, 8); w.vf.actions[s] = rng.below(A); }
        unsigned h = (unsigned)rng.range(0, 4);
        // the constructor documents "the initial value function from which to start the loop" and only requires its size to match
        // S; the actions of a start are never read, so `ValueFunction{values}` (empty actions) is the natural way to pass one
        if (forceEmptyActions && h == 0) h = 3;
        if (forceEmptyActions || rng.coin(1, 3)) { w.vf.actions.clear(); std::printf("#stat warm_empty_actions 1\n"); }
        ALLREPS(runVI(mod, rep, G, G.dyadic, h, 0.0, w));
        // wrong-size warm start is ignored
        if (rng.coin(1, 4)) { Warm bad; bad.on = true; bad.vf.values.resize(S + 1); bad.vf.values.setOnes(); bad.vf.actions.assign(S + 1, 0); runVI(dense, "dense", G, G.dyadic, 2, 0.0, bad); }
    }
    // (3) policy evaluation of a random stochastic policy: tolerance 0 (exact h-step value) and tolerance run
    {
        AIToolbox::Matrix2D pol(S, A);
        for (size_t s = 0; s < S; ++s) {
            std::vector<unsigned> c(A, 0); for (int k = 0; k < 4; ++k) c[rng.below(A)] += 1;
            for (size_t a = 0; a < A; ++a) pol(s, a) = 0.25 * c[a];
        }
        unsigned h = (unsigned)rng.range(0, 6);
        ALLREPS(runPE(mod, rep, G, G.dyadic, h, 0.0, nullptr, pol));
        emitXrep("pe_dp", G.dyadic, G, xrepOut);
        static const double tols[] = {1e-3, 1e-2, 0.25, 2e-6};
        double tol = tols[rng.below(4)];
        ALLREPS(runPE(mod, rep, G, false, 2000, tol, nullptr, pol));
        emitXrep("pe_tol", false, G, xrepOut);
        AIToolbox::Vector warm(S); for (size_t s = 0; s < S; ++s) warm[s] = 0.5 * (double)rng.range(-8, 8);
        runPE(dense, "dense", G, G.dyadic, (unsigned)rng.range(0, 3), 0.0, &warm, pol);
        runPE(generic, "generic", G, G.dyadic, (unsigned)rng.range(0, 3), 0.0, &warm, pol);
    }
    // (4) converged runs: VI, PI, LP on every representation; pairwise agreement
    {
        static const double tols[] = {1e-3, 1e-4, 1e-2, 0.5, 2e-6};
        const double tolVI = tols[rng.below(5)], tolPI = tols[rng.below(3)];
        Warm none;
        std::vector<AIToolbox::Vector> vvi, vlp;
        std::vector<M::Actions> avi; std::vector<AIToolbox::Matrix2D> qpi, qlp; std::vector<double> precs;
        auto doRep = [&](const auto & mod, const char * rep) {
            M::ValueIteration vi(100000, tolVI);
            auto [var, vf, q] = vi(mod);
            { Line l = head("vi", false, rep, G); l << 100000u << tolVI << false << "|" << var; putVec(l, vf.values); l.nats(vf.actions); putMat(l, q); l.emit(); }
            auto qp = runPI(mod, rep, G, 100000, tolPI);
            auto lr = runLP(mod, rep, G);
            if (lr.ok) {
                Line l = head("agree", false, rep, G); l << tolVI << tolPI << lr.prec << "|";
                putVec(l, vf.values); putActs(l, vf.actions); putMat(l, qp); putVec(l, lr.vf.values); putMat(l, lr.q); l.emit();
                vlp.push_back(lr.vf.values);
            }
            vvi.push_back(vf.values);
        };
        doRep(dense, "dense"); doRep(sparse, "sparse"); doRep(learned, "learned"); doRep(generic, "generic");
        doRep(learnedSp, "learned_sp"); doRep(learnedSpSx, "learned_spsx");
        emitXrep("vi_tol", false, G, vvi);
        if (vlp.size() == vvi.size()) emitXrep("lp", false, G, vlp);
    }
    // (4b) ThompsonModel: a posterior *sample* of the MDP; it is its own MDP (tables read back through the public getters),
    //      solved through the Eigen path and, wrapped in the query-only struct, through the generic path
    {
        M::ThompsonModel<M::Experience> th(exp, G.g);
        Gen G2; G2.S = S; G2.A = A; G2.g = G.g; G2.dyadic = false;
        G2.t.assign(S, std::vector<std::vector<double>>(A, std::vector<double>(S, 0.0))); G2.r = G2.t;
        for (size_t s = 0; s < S; ++s) for (size_t a = 0; a < A; ++a) for (size_t s1 = 0; s1 < S; ++s1) {
            G2.t[s][a][s1] = th.getTransitionProbability(s, a, s1); G2.r[s][a][s1] = th.getExpectedReward(s, a, s1); }
        GenericModel thGeneric{S, A, G.g, &G2.t, &G2.r};
        Warm none; unsigned h = (unsigned)rng.range(0, 8);
        std::vector<AIToolbox::Vector> vs;
        vs.push_back(runVI(th, "thompson", G2, false, h, 0.0, none));
        vs.push_back(runVI(thGeneric, "generic", G2, false, h, 0.0, none));
        emitXrep("vi_dp_thompson", false, G2, vs);
        const double tolVI = 1e-3, tolPI = 1e-3;
        M::ValueIteration vi(100000, tolVI);
        auto [var, vf, q] = vi(th);
        { Line l = head("vi", false, "thompson", G2); l << 100000u << tolVI << false << "|" << var; putVec(l, vf.values); l.nats(vf.actions); putMat(l, q); l.emit(); }
        auto qp = runPI(th, "thompson", G2, 100000, tolPI);
        auto lr = runLP(th, "thompson", G2);
        if (lr.ok) { Line l = head("agree", false, "thompson", G2); l << tolVI << tolPI << lr.prec << "|";
            putVec(l, vf.values); putActs(l, vf.actions); putMat(l, qp); putVec(l, lr.vf.values); putMat(l, lr.q); l.emit(); }
        std::printf("#stat thompson 1\n");
    }
    // (5) policy iteration with tolerance 0 and a short horizon (optimistic PI): only where it is known to stop quickly
    if (tier == "thorough" ? rng.coin(1, 2) : rng.coin(1, 4)) {
        unsigned h = (unsigned)rng.range(20, 40);
        runPI(dense, "dense", G, h, 0.0);
        runPI(generic, "generic", G, h, 0.0);
    }
}

long verif::verif_ncases(const std::string & tier) { return tier == "thorough" ? 800 : 160; }

// hand-written low-index cases
static Gen fixedCase(long idx) {
    Gen G;
    if (idx == 0) {            // S=1, A=1, negative reward, self loop
        G.S = 1; G.A = 1; G.g = 0.5; G.den = 8;
        G.t = {{{1.0}}}; G.r = {{{-1.0}}}; G.cnt = {{{8}}};
    } else if (idx == 1) {     // two states, exact tie between actions everywhere (first maximum must win)
        G.S = 2; G.A = 3; G.g = 0.75; G.den = 8;
        G.t.assign(2, std::vector<std::vector<double>>(3, std::vector<double>(2, 0.5)));
        G.r.assign(2, std::vector<std::vector<double>>(3, std::vector<double>(2, 1.0)));
        G.cnt.assign(2, std::vector<std::vector<unsigned>>(3, std::vector<unsigned>(2, 4)));
    } else {                   // negative rewards, stochastic self-loop, A=1 in effect (both actions identical) except reward sign
        G.S = 3; G.A = 2; G.g = 0.875; G.den = 8;
        G.t = {{{0.5, 0.5, 0.0}, {0.0, 0.0, 1.0}}, {{0.0, 0.25, 0.75}, {1.0, 0.0, 0.0}}, {{0.0, 0.0, 1.0}, {0.0, 0.0, 1.0}}};
        G.r = {{{-1.0, -2.0, 0.0}, {0.0, 0.0, -4.0}}, {{0.0, -0.5, 1.5}, {-3.0, 0.0, 0.0}}, {{0.0, 0.0, -0.25}, {0.0, 0.0, -0.5}}};
        G.cnt = {{{4, 4, 0}, {0, 0, 8}}, {{0, 2, 6}, {8, 0, 0}}, {{0, 0, 8}, {0, 0, 8}}};
    }
    return G;
}

void verif::verif_case(Rng & rng, long idx, const std::string & tier) {
    if (idx < 3) { Gen G = fixedCase(idx); runAll(rng, G, tier, idx == 2); return; }
    const bool ugly = (idx % 4 == 3);
    Gen G = genMDP(rng, tier, ugly);
    runAll(rng, G, tier);
}

VERIF_MAIN
