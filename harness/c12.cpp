// C12 correspondence harness: pruning (Utils/Prune.hpp, Utils/Polytope.hpp) and upper-bound
// interpolation (src/Utils/Polytope.cpp).  Calls the REAL library on seeded inputs and prints, per case,
// the inputs, the implementation's exact outputs and *untrusted certificates* (Farkas multipliers,
// witness beliefs, primal/dual LP solutions found with the library's own lp_solve wrapper).  The Lean
// driver re-checks every certificate in exact rational arithmetic; a missing or invalid certificate can
// only turn a verdict into `skip`, never into `ok`.
#include "common/verif.hpp"
#include <AIToolbox/Utils/Prune.hpp>
#include <AIToolbox/Utils/Polytope.hpp>
#include <AIToolbox/Utils/LP.hpp>
#include <lpsolve/lp_lib.h>
#include <algorithm>
#include <numeric>
#include <map>
#include <set>

using namespace verif;
using namespace AIToolbox;
using VList = std::vector<Vector>;

// ------------------------------------------------------------------ lp_solve call recorder
// Every call src/Utils/LP/LpSolveWrapper.cpp makes into lp_solve that changes the LP (make_lp, add_constraint,
// del_constraint, resize_lp, set_obj, set_obj_fn, set_maxim/minim, set_unbounded, delete_lp) is intercepted at link
// time (-Wl,--wrap=...), mirrored per lprec and passed through unchanged; at every solve() made while `g_rec.on` the
// mirrored LP (exactly what lp_solve was given: coefficients AFTER the wrapper touched them), lp_solve's result code,
// objective and variables are snapshotted.  The Lean driver compares the snapshots with the LP its model poses.
struct RecRow { std::vector<double> coef; int rel; double rhs; };
struct RecLP { int ncols = 0; std::vector<RecRow> rows; std::vector<double> obj; int maxim = -1; std::set<int> unbounded; };
struct Snap { RecLP lp; int result = -99; double objective = 0; std::vector<double> vars; };
struct Recorder { bool on = false; std::map<lprec *, RecLP> lps; std::vector<Snap> snaps; } g_rec;

extern "C" {
    lprec * __real_make_lp(int, int);
    void __real_delete_lp(lprec *);
    unsigned char __real_add_constraint(lprec *, REAL *, int, REAL);
    unsigned char __real_del_constraint(lprec *, int);
    unsigned char __real_resize_lp(lprec *, int, int);
    unsigned char __real_set_obj(lprec *, int, REAL);
    unsigned char __real_set_obj_fn(lprec *, REAL *);
    void __real_set_minim(lprec *);
    void __real_set_maxim(lprec *);
    unsigned char __real_set_unbounded(lprec *, int);
    int __real_solve(lprec *);

    lprec * __wrap_make_lp(int rows, int cols) {
        lprec * lp = __real_make_lp(rows, cols);
        RecLP r; r.ncols = cols; r.obj.assign(cols, 0.0); g_rec.lps[lp] = std::move(r);
        return lp;
    }
    void __wrap_delete_lp(lprec * lp) { g_rec.lps.erase(lp); __real_delete_lp(lp); }
    unsigned char __wrap_add_constraint(lprec * lp, REAL * row, int type, REAL rh) {
        auto & r = g_rec.lps[lp];
        RecRow rr; rr.rel = type; rr.rhs = rh; rr.coef.assign(row + 1, row + 1 + r.ncols);
        r.rows.push_back(std::move(rr));
        return __real_add_constraint(lp, row, type, rh);
    }
    unsigned char __wrap_del_constraint(lprec * lp, int n) {
        auto & r = g_rec.lps[lp];
        if (n >= 1 && (size_t)n <= r.rows.size()) r.rows.erase(r.rows.begin() + (n - 1));
        return __real_del_constraint(lp, n);
    }
    unsigned char __wrap_resize_lp(lprec * lp, int rows, int cols) {
        auto & r = g_rec.lps[lp];
        if (rows >= 0 && (size_t)rows < r.rows.size()) r.rows.resize(rows);
        if (cols != r.ncols) { r.ncols = cols; r.obj.resize(cols, 0.0); for (auto & x : r.rows) x.coef.resize(cols, 0.0); }
        return __real_resize_lp(lp, rows, cols);
    }
    unsigned char __wrap_set_obj(lprec * lp, int col, REAL v) {
        auto & r = g_rec.lps[lp]; if (col >= 1 && col <= r.ncols) r.obj[col - 1] = v;
        return __real_set_obj(lp, col, v);
    }
    unsigned char __wrap_set_obj_fn(lprec * lp, REAL * row) {
        auto & r = g_rec.lps[lp]; r.obj.assign(row + 1, row + 1 + r.ncols);
        return __real_set_obj_fn(lp, row);
    }
    void __wrap_set_minim(lprec * lp) { g_rec.lps[lp].maxim = 0; __real_set_minim(lp); }
    void __wrap_set_maxim(lprec * lp) { g_rec.lps[lp].maxim = 1; __real_set_maxim(lp); }
    unsigned char __wrap_set_unbounded(lprec * lp, int col) { g_rec.lps[lp].unbounded.insert(col - 1); return __real_set_unbounded(lp, col); }
    int __wrap_solve(lprec * lp) {
        const int res = __real_solve(lp);
        if (g_rec.on) {
            Snap s; s.lp = g_rec.lps[lp]; s.result = res; s.objective = get_objective(lp);
            REAL * vp = nullptr; get_ptr_variables(lp, &vp);
            if (vp) s.vars.assign(vp, vp + s.lp.ncols);
            g_rec.snaps.push_back(std::move(s));
        }
        return res;
    }
}
struct RecScope { RecScope() { g_rec.snaps.clear(); g_rec.on = true; } ~RecScope() { g_rec.on = false; } };

// ------------------------------------------------------------------ printing
static void putVec(Line & l, const Vector & v) { for (long i = 0; i < v.size(); ++i) l << (double)v[i]; }
static void putVecs(Line & l, const VList & vs) { for (auto & v : vs) putVec(l, v); }
static void putOptVec(Line & l, const std::optional<Vector> & v) {
    if (!v) { l << (size_t)0; return; }
    l << (size_t)v->size(); putVec(l, *v);
}

// one recorded solve: the LP as handed to lp_solve, then lp_solve's answer
static void putSnap(Line & l, const Snap & s) {
    l << s.lp.ncols << (size_t)s.lp.rows.size() << s.lp.maxim << (size_t)s.lp.unbounded.size();
    for (int c : s.lp.unbounded) l << c;
    for (double x : s.lp.obj) l << x;
    for (auto & r : s.lp.rows) { for (double x : r.coef) l << x; l << r.rel << r.rhs; }
    l << s.result << s.objective << (size_t)s.vars.size(); for (double x : s.vars) l << x;
}
static void putSnaps(Line & l, const std::vector<Snap> & ss) { l << (size_t)ss.size(); for (auto & s : ss) putSnap(l, s); }

// ------------------------------------------------------------------ certificates (untrusted finders)
// Farkas multipliers: lambda >= 0, sum 1, minimising t with  sum_i lambda_i g_i + t >= r  componentwise.
static std::optional<Vector> farkas(const VList & G, const Vector & r) {
    const size_t k = G.size(); if (!k) return std::nullopt;
    const size_t S = r.size();
    LP lp(k + 1);
    lp.resize(S + 1);
    lp.setObjective(k, false);
    lp.setUnbounded(k);
    for (size_t s = 0; s < S; ++s) {
        for (size_t i = 0; i < k; ++i) lp.row[i] = G[i][s];
        lp.row[k] = 1.0;
        lp.pushRow(LP::Constraint::GreaterEqual, r[s]);
    }
    for (size_t i = 0; i < k; ++i) lp.row[i] = 1.0;
    lp.row[k] = 0.0;
    lp.pushRow(LP::Constraint::Equal, 1.0);
    double obj;
    auto sol = lp.solve(k, &obj);
    return sol;
}
// witness belief where r is strictly above every g (the library's own WitnessLP)
static std::optional<Vector> witness(const VList & G, const Vector & r) {
    const size_t S = r.size();
    WitnessLP lp(S);
    lp.reset(); lp.allocate(G.size() + 1);
    for (auto & g : G) lp.addOptimalRow(g);
    return lp.findWitness(r);
}
struct Cert { size_t idx; std::optional<Vector> lambda, b; };
static void putCerts(Line & l, const std::vector<Cert> & cs) {
    l << (size_t)cs.size();
    for (auto & c : cs) { l << c.idx; putOptVec(l, c.lambda); putOptVec(l, c.b); }
}
static double maxAbs(const VList & vs) { double m = 0; for (auto & v : vs) for (long i = 0; i < v.size(); ++i) m = std::max(m, std::fabs(v[i])); return m; }
// certificates for the removed part arr[e..) against the kept part arr[0..e): only where no kept vector
// dominates pairwise within slack
static std::vector<Cert> removedCerts(const VList & arr, size_t e, double slack) {
    std::vector<Cert> out;
    VList kept(arr.begin(), arr.begin() + e);
    for (size_t i = e; i < arr.size(); ++i) {
        bool pw = false;
        for (auto & g : kept) if (((g - arr[i]).array() >= -slack).all()) { pw = true; break; }
        if (pw) continue;
        Cert c; c.idx = i; c.lambda = farkas(kept, arr[i]); c.b = witness(kept, arr[i]);
        out.push_back(std::move(c));
    }
    return out;
}

// ------------------------------------------------------------------ generators
static double quarter(Rng & r, int lo, int hi) { return (double)r.range(lo * 4, hi * 4) / 4.0; }
static const double kDeltas[] = { 0x1p-21, -0x1p-21, 0x1p-20, -0x1p-20, 0x1p-19, -0x1p-19, 0x1p-30, -0x1p-30, 1e-6, -1e-6, 1.5e-6, -1.5e-6, 0.5e-6 };

static VList genVectors(Rng & rng, size_t S, size_t n, int & shape) {
    VList vs;
    shape = (int)rng.below(8);
    int range = rng.coin() ? 2 : 6;
    auto rnd = [&]() { Vector v(S); for (size_t s = 0; s < S; ++s) v[s] = quarter(rng, -range, range); return v; };
    while (vs.size() < n) {
        unsigned k = (unsigned)rng.below(10);
        if (vs.empty() || k < 3 || shape == 0) { vs.push_back(rnd()); continue; }
        const Vector base = vs[rng.below(vs.size())];
        Vector v = base;
        switch (shape) {
            case 1: break;                                                   // exact duplicate
            case 2: v.array() += kDeltas[rng.below(13)]; break;              // near-parallel (shifted)
            case 3: v[rng.below(S)] += kDeltas[rng.below(13)]; break;        // one coordinate straddling the tolerance
            case 4: {                                                        // best only at one corner
                size_t c = rng.below(S); v.array() -= quarter(rng, 0, 3); v[c] = base[c] + quarter(rng, 0, 2); break; }
            case 5: {                                                        // below the midpoint of two others (not pairwise dominated)
                const Vector o = vs[rng.below(vs.size())]; v = (base + o) / 2.0; v.array() -= (rng.coin() ? 0.0 : 0.25); break; }
            case 6: {                                                        // ties on a face: equal on some coordinates
                for (size_t s = 0; s < S; ++s) if (rng.coin()) v[s] = quarter(rng, -range, range); break; }
            default: v = rnd();
        }
        vs.push_back(v);
    }
    if (shape == 7 && n) {   // large magnitudes: the relative clause of dominates() becomes the wider one
        for (auto & v : vs) v *= 0x1p22;
        for (size_t i = 1; i < vs.size(); ++i) if (rng.coin(1, 3)) { vs[i] = vs[rng.below(i)]; vs[i].array() += (rng.coin() ? 0x1p-16 : -0x1p-16) * (double)rng.range(1, 3); }
    }
    return vs;
}

// Exact ties at a simplex corner (dimension >= 3): several mutually non-dominated vectors share EXACTLY the maximal value at
// corner c; one more vector with the same corner value lies below (useless) or above (needed, control) their mixture away from
// the corner. Which tied vector extractBestAtSimplexCorners picks is decided by the lexicographic tie-break alone.
static VList genCornerTie(Rng & rng, size_t S, bool & uselessIncluded) {
    VList vs;
    const size_t c = rng.below(S);
    const double t = quarter(rng, 1, 4), off = rng.coin() ? 0.0 : quarter(rng, -8, 1);
    std::vector<size_t> dirs; for (size_t d = 0; d < S; ++d) if (d != c) dirs.push_back(d);
    const size_t m = std::min<size_t>(dirs.size(), 2 + rng.below(2));
    Vector mean = Vector::Zero(S);
    for (size_t j = 0; j < m; ++j) { Vector u = Vector::Zero(S); u[c] = t; u[dirs[j]] = (double)rng.range(1, 3); vs.push_back(u); mean += u / (double)m; }
    if (m == 3) mean = (vs[0] + vs[1]) / 2.0 * 0.5 + vs[2] * 0.5;          // keep the mixture dyadic
    uselessIncluded = rng.coin(2, 3);
    Vector w = mean * (uselessIncluded ? (rng.coin() ? 0.5 : 0.75) : 1.25); w[c] = t; vs.push_back(w);
    for (size_t d : dirs) if (rng.coin(3, 4)) { Vector b = Vector::Zero(S); b[d] = t + (double)rng.range(1, 5); vs.push_back(b); }
    if (rng.coin(1, 4)) vs.push_back(vs[rng.below(vs.size())]);             // an exact duplicate
    for (size_t i = rng.below(3); i > 0; --i) { Vector r(S); for (size_t s = 0; s < S; ++s) r[s] = quarter(rng, -2, 1); vs.push_back(r); }
    for (auto & v : vs) v.array() += off;                                   // a common shift changes nothing but the signs
    for (size_t i = vs.size(); i > 1; --i) std::swap(vs[i - 1], vs[rng.below(i)]);
    return vs;
}

// Mixed magnitudes INSIDE one set (round 3): entries >= 2^17 next to order-one entries, and vectors only the witness LP can
// find (best strictly inside a face, at no corner).  kind 0: one huge state; 1: an opposed huge pair (+H,-H)/(-H,+H) with
// flat vectors between; 2: every vector huge in a different state; 3: huge, order-one and tiny (2^-20) entries together.
static VList genMixed(Rng & rng, size_t S, size_t n, int & kind, int & expo) {
    kind = (int)rng.below(4); expo = 17 + (int)rng.below(rng.coin(1, 4) ? 12 : 8);
    const double H = std::ldexp(1.0, expo);
    auto small = [&]() { Vector v(S); for (size_t s = 0; s < S; ++s) v[s] = quarter(rng, -3, 3); return v; };
    VList vs;
    const size_t h = rng.below(S), h2 = (h + 1 + rng.below(S > 1 ? S - 1 : 1)) % S;
    auto midface = [&]() {   // the mean of two members lifted by 1/4..5/4: above both wherever they tie
        if (vs.size() < 2) return;
        const Vector & a = vs[rng.below(vs.size())], & b = vs[rng.below(vs.size())];
        Vector w = (a + b) / 2.0; w.array() += 0.25 + quarter(rng, 0, 1);
        if (rng.coin(1, 3)) w[h] = std::min(a[h], b[h]);
        vs.push_back(w);
    };
    while (vs.size() < n) {
        Vector v = small();
        switch (kind) {
            case 0: v[h] = H * (double)rng.range(-3, 3); break;
            case 1: { const double c = (double)rng.range(1, 3) * (rng.coin() ? 1.0 : -1.0); v[h] = H * c; if (S > 1) v[h2] = -H * c;
                      if (rng.coin(1, 3)) { v[h] = quarter(rng, -2, 2); if (S > 1) v[h2] = quarter(rng, -2, 2); } break; }
            case 2: v[vs.size() % S] = H * (double)rng.range(-2, 3); break;
            default: v[h] = H * (double)rng.range(-3, 3); if (S > 1) v[h2] = 0x1p-20 * (double)rng.range(-8, 8); break;
        }
        vs.push_back(v);
        if (vs.size() < n && rng.coin(2, 5)) midface();
    }
    for (size_t i = vs.size(); i > 1; --i) std::swap(vs[i - 1], vs[rng.below(i)]);
    return vs;
}

// dyadic belief with exact sum 1 (denominator 2^bits), zeros with probability pz per coordinate
static Vector genBelief(Rng & rng, size_t S, unsigned bits, unsigned pzNum) {
    const uint64_t D = 1ull << bits;
    for (;;) {
        std::vector<uint64_t> w(S, 0);
        bool any = false;
        for (size_t s = 0; s < S; ++s) if (!rng.coin(pzNum, 8)) { w[s] = 1 + rng.below(15); any = true; }
        if (!any) w[rng.below(S)] = 1;
        uint64_t tot = 0; for (auto x : w) tot += x;
        // scale to D with largest remainder to the first non-zero entry
        std::vector<uint64_t> k(S, 0); uint64_t used = 0; long first = -1;
        for (size_t s = 0; s < S; ++s) { if (w[s]) { k[s] = std::max<uint64_t>(1, w[s] * D / tot); used += k[s]; if (first < 0) first = (long)s; } }
        if (used > D) continue;
        k[first] += D - used;
        Vector b(S); for (size_t s = 0; s < S; ++s) b[s] = (double)k[s] / (double)D;
        return b;
    }
}

// ------------------------------------------------------------------ ops: dominates / extractDominated / incremental
static void emit_dom(const Vector & l, const Vector & r) {
    Line o; o << "C12" << "dom" << (size_t)l.size(); putVec(o, l); putVec(o, r); o << "|" << dominates(l, r); o.emit();
}

// findBestAtPoint / findBestAtSimplexCorner / extractBestAtPoint on a list with ties
static void emit_best(const VList & in, size_t S, const Vector & point, size_t corner, size_t bound) {
    if (in.empty()) return;
    double v1 = 0, v2 = 0;
    const size_t i1 = findBestAtPoint(point, in.begin(), in.end(), &v1) - in.begin();
    const size_t i2 = findBestAtSimplexCorner(corner, in.begin(), in.end(), &v2) - in.begin();
    VList arr = in; if (bound > arr.size()) bound = arr.size();
    const size_t nb = extractBestAtPoint(point, arr.begin(), arr.begin() + bound, arr.end()) - arr.begin();
    Line o; o << "C12" << "best" << S << (size_t)in.size(); putVecs(o, in); putVec(o, point); o << corner << bound;
    o << "|" << i1 << v1 << i2 << v2 << nb; putVecs(o, arr); o.emit();
}

// extractBestUsefulPoints (tested only): points that support no hyperplane of their own are moved behind the returned iterator
static void emit_bup(const VList & pts, const VList & vs, size_t S) {
    if (vs.empty()) return;
    VList arr = pts;
    const size_t k = extractBestUsefulPoints(arr.begin(), arr.end(), vs.begin(), vs.end()) - arr.begin();
    Line o; o << "C12" << "bup" << S << (size_t)pts.size() << (size_t)vs.size(); putVecs(o, pts); putVecs(o, vs);
    o << "|" << k; putVecs(o, arr); o.emit();
}

static void emit_ed(const VList & in, size_t S) {
    VList arr = in;
    auto it = extractDominated(arr.begin(), arr.end());
    const size_t e = (size_t)std::distance(arr.begin(), it);
    Line o; o << "C12" << "ed" << S << (size_t)in.size(); putVecs(o, in);
    o << "|" << e; putVecs(o, arr);
    const double slack = in.size() * std::max(1e-6, maxAbs(in) * 1e-11);
    putCerts(o, removedCerts(arr, e, slack));
    o.emit();
}

static void emit_edi(const VList & oldv, const VList & newv, size_t S) {
    VList arr = oldv; arr.insert(arr.end(), newv.begin(), newv.end());
    auto [a, b, c] = extractDominatedIncremental(arr.begin(), arr.begin() + oldv.size(), arr.end());
    const size_t i1 = a - arr.begin(), i2 = b - arr.begin(), i3 = c - arr.begin();
    Line o; o << "C12" << "edi" << S << (size_t)oldv.size() << (size_t)newv.size(); putVecs(o, oldv); putVecs(o, newv);
    o << "|" << i1 << i2 << i3; putVecs(o, arr);
    VList all = arr;
    const double slack = all.size() * std::max(1e-6, maxAbs(all) * 1e-11);
    putCerts(o, removedCerts(arr, i2, slack));
    o.emit();
}

// ------------------------------------------------------------------ op: Pruner
struct OracleCall { VList best; Vector v; std::optional<Vector> w, lambda; };

// Replica of Pruner::operator() built from the library's public pieces, used ONLY to record the sequence of
// witness-LP questions and answers (the oracle trace the Lean model is run with). The array it produces must
// equal the real Pruner's, otherwise no trace is sent.
static size_t prunerReplica(size_t S, VList & arr, std::vector<OracleCall> & trace) {
    auto begin = arr.begin(); auto end = extractDominated(arr.begin(), arr.end());
    const size_t size = std::distance(begin, end);
    if (size < 2) return size;
    auto bound = begin;
    bound = extractBestAtSimplexCorners(S, begin, bound, end);
    WitnessLP lp(S);
    if (bound < end) { lp.reset(); lp.allocate(size); for (auto it = begin; it != bound; ++it) lp.addOptimalRow(*it); }
    while (bound < end) {
        OracleCall c; c.best.assign(begin, bound); c.v = *(end - 1);
        const auto w = lp.findWitness(*(end - 1));
        if (w) { c.w = *w; bound = extractBestAtPoint(*w, bound, bound, end); lp.addOptimalRow(*(bound - 1)); }
        else { c.lambda = farkas(c.best, c.v); --end; }
        trace.push_back(std::move(c));
    }
    return std::distance(begin, bound);
}

// `warm`: a set pruned FIRST with the same Pruner object (its result is discarded): the object keeps its LP between calls (the
// solvers of the library hold one Pruner for all their calls), and the second result must not depend on the first.  When it
// does, a `reuse` line carries both results and the `prune` line below describes the fresh object's call.
static void emit_prune(const VList & in, size_t S, const VList * warm = nullptr) {
    { Line pre; pre << "#in" << "prune" << S << (size_t)in.size(); putVecs(pre, in); pre.emit(); }   // replay aid if the call below hangs or aborts
    VList arr = in;
    std::vector<Snap> snaps;
    size_t e;
    bool usedOk = false;
    if (warm) {
        Pruner pr(S);
        { VList w = *warm; pr(w.begin(), w.end()); }
        VList used = in; std::vector<Snap> usnaps; size_t ue;
        { RecScope rs; auto it = pr(used.begin(), used.end()); ue = (size_t)std::distance(used.begin(), it); usnaps = g_rec.snaps; }
        VList fresh = in; Pruner pf(S); const size_t fe = (size_t)std::distance(fresh.begin(), pf(fresh.begin(), fresh.end()));
        usedOk = ue == fe; for (size_t i = 0; usedOk && i < used.size(); ++i) usedOk = used[i] == fresh[i];
        std::printf("#stat prune_on_a_used_pruner 1\n#stat used_pruner_%s 1\n", usedOk ? "same_result" : "different_result");
        Line o; o << "C12" << "reuse" << S << (size_t)in.size() << (size_t)warm->size(); putVecs(o, in); putVecs(o, *warm);
        o << "|" << ue; putVecs(o, used); o << fe; putVecs(o, fresh); o.emit();
        if (usedOk) { arr = used; e = ue; snaps = usnaps; }
    }
    if (!usedOk) {
        Pruner pr(S);
        RecScope rs; auto it = pr(arr.begin(), arr.end()); e = (size_t)std::distance(arr.begin(), it); snaps = g_rec.snaps;
    }
    VList arr2 = in; std::vector<OracleCall> trace;
    const size_t e2 = prunerReplica(S, arr2, trace);
    bool same = e2 == e && arr2.size() == arr.size();
    for (size_t i = 0; same && i < arr.size(); ++i) same = (arr[i] == arr2[i]);
    Line o; o << "C12" << "prune" << S << (size_t)in.size(); putVecs(o, in);
    o << "|" << e; putVecs(o, arr);
    // oracle trace
    o << same;
    if (same) {
        o << (size_t)trace.size();
        for (auto & c : trace) { o << (size_t)c.best.size(); putVecs(o, c.best); putVec(o, c.v); putOptVec(o, c.w); putOptVec(o, c.lambda); }
    } else { std::puts("#stat replica_mismatch 1"); }
    // envelope certificates for the removed vectors
    const double slack = in.size() * std::max(1e-6, maxAbs(in) * 1e-11);
    putCerts(o, removedCerts(arr, e, slack));
    // "needed somewhere" certificates for the kept vectors: witness belief against the other kept ones,
    // or Farkas multipliers of the others when there is none
    std::vector<Cert> need;
    for (size_t i = 0; i < e; ++i) {
        VList others; for (size_t j = 0; j < e; ++j) if (j != i) others.push_back(arr[j]);
        Cert c; c.idx = i;
        if (!others.empty()) { c.b = witness(others, arr[i]); c.lambda = farkas(others, arr[i]); }
        need.push_back(std::move(c));
    }
    putCerts(o, need);
    // every LP the real Pruner handed to lp_solve, in call order, with lp_solve's answers
    putSnaps(o, snaps);
    o.emit();
}

// ------------------------------------------------------------------ op: WitnessLP used directly
// reset / allocate / addOptimalRow* / findWitness on a fresh object (and a second question on the same object, so that the
// pushed witness row must have been popped): `wlp S k best v v2 | answer answer2 snaps`
static void emit_wlp(const VList & best, const Vector & v, const Vector & v2, size_t S) {
    { Line pre; pre << "#in" << "wlp" << S << (size_t)best.size(); putVecs(pre, best); putVec(pre, v); pre.emit(); }
    WitnessLP lp(S);
    lp.reset(); lp.allocate(best.size() + 1);
    std::optional<Vector> a1, a2; std::vector<Snap> snaps;
    { RecScope rs; for (auto & g : best) lp.addOptimalRow(g); a1 = lp.findWitness(v); a2 = lp.findWitness(v2); snaps = g_rec.snaps; }
    Line o; o << "C12" << "wlp" << S << (size_t)best.size(); putVecs(o, best); putVec(o, v); putVec(o, v2);
    o << "|"; putOptVec(o, a1); putOptVec(o, a2); putSnaps(o, snaps); o.emit();
}

// ------------------------------------------------------------------ ops: interpolation
struct Surface { Matrix2D ubQ; PointSurface ubV; };

// dual: hyperplane h below all corner values and all stored point values, maximising h . point
static std::optional<Vector> dualCert(const Vector & point, const Vector & cv, const PointSurface & V) {
    const size_t S = point.size();
    LP lp(S);
    lp.resize(S + V.first.size());
    lp.row = point; lp.setObjective(true);
    for (size_t s = 0; s < S; ++s) lp.setUnbounded(s);
    for (size_t s = 0; s < S; ++s) { lp.row.setZero(); lp.row[s] = 1.0; lp.pushRow(LP::Constraint::LessEqual, cv[s]); }
    for (size_t j = 0; j < V.first.size(); ++j) { lp.row = V.first[j]; lp.pushRow(LP::Constraint::LessEqual, V.second[j]); }
    double obj; return lp.solve(S, &obj);
}
// primal: weights c_j >= 0 on the stored points (corner weights are implied: point - sum c_j p_j >= 0)
static std::optional<Vector> primalCert(const Vector & point, const Vector & cv, const PointSurface & V) {
    const size_t S = point.size(), N = V.first.size();
    if (!N) return Vector(0);
    LP lp(N);
    lp.resize(S);
    for (size_t j = 0; j < N; ++j) lp.row[j] = V.second[j] - V.first[j].dot(cv);
    lp.setObjective(false);
    for (size_t s = 0; s < S; ++s) { for (size_t j = 0; j < N; ++j) lp.row[j] = V.first[j][s]; lp.pushRow(LP::Constraint::LessEqual, point[s]); }
    double obj; return lp.solve(N, &obj);
}

static void emit_interp(const char * op, const Vector & point, const Surface & sf) {
    const size_t S = point.size(), A = sf.ubQ.cols(), N = sf.ubV.first.size();
    Line o; o << "C12" << op << S << A << N; putVec(o, point);
    for (size_t s = 0; s < S; ++s) for (size_t a = 0; a < A; ++a) o << (double)sf.ubQ(s, a);
    putVecs(o, sf.ubV.first); for (double v : sf.ubV.second) o << v;
    o << "|";
    std::vector<Snap> snaps;
    try {
        RecScope rs;
        auto [val, w] = (op[0] == 'l') ? LPInterpolation(point, sf.ubQ, sf.ubV) : sawtoothInterpolation(point, sf.ubQ, sf.ubV);
        o << "ok" << val << (size_t)w.size(); putVec(o, w);
        snaps = g_rec.snaps;
    } catch (const std::exception & e) { o << errClass(e); snaps = g_rec.snaps; }
    const Vector cv = sf.ubQ.rowwise().maxCoeff();
    putOptVec(o, dualCert(point, cv, sf.ubV));
    putOptVec(o, primalCert(point, cv, sf.ubV));
    putSnaps(o, snaps);       // the LP LPInterpolation handed to lp_solve (none on the shortcut branches and for sawtooth)
    o.emit();
}

static Surface genSurface(Rng & rng, size_t S, size_t A, size_t N, const Vector & query, int & shape) {
    Surface sf; sf.ubQ.resize(S, A);
    for (size_t s = 0; s < S; ++s) for (size_t a = 0; a < A; ++a) sf.ubQ(s, a) = quarter(rng, -2, 8);
    const Vector cv = sf.ubQ.rowwise().maxCoeff();
    shape = (int)rng.below(6);
    for (size_t j = 0; j < N; ++j) {
        Vector p;
        unsigned k = (unsigned)rng.below(8);
        if (k == 0) p = query;                                   // stored point equal to the query
        else if (k <= 2) {                                       // same support as the query
            p = genBelief(rng, S, 4, 0); for (size_t s = 0; s < S; ++s) if (query[s] == 0.0) p[s] = 0.0;
            double t = p.sum(); if (t == 0.0) p = query; else { // renormalise exactly by moving the deficit to the first non-zero slot
                for (size_t s = 0; s < S; ++s) if (p[s] != 0.0) { p[s] += 1.0 - t; break; } }
        }
        else p = genBelief(rng, S, 4, shape == 0 ? 0 : (shape == 1 ? 4 : 2));
        // value: below the corner surface by a dyadic gap (helpful), occasionally above it (unhelpful)
        double gap = (shape == 5 || rng.coin(1, 6)) ? quarter(rng, 0, 2) : -quarter(rng, 0, 3);
        sf.ubV.first.push_back(p); sf.ubV.second.push_back(p.dot(cv) + gap);
    }
    return sf;
}

// Does the library under test store the sawtooth point weight in slot S+minI (repaired source)?  Decided by
// running it on an input with one helpful point (no undefined behaviour in either reading).
static bool sawRepaired() {
    static int cached = -1;
    if (cached < 0) {
        Matrix2D q(3, 1); q << 4, 5, 6; Vector pt(3); pt << 0.5, 0.25, 0.25; Vector p(3); p << 0.25, 0.5, 0.25;
        PointSurface V; V.first.push_back(p); V.second.push_back(1.0);
        auto [val, w] = sawtoothInterpolation(pt, q, V);
        cached = (w[3] == 0.5) ? 1 : 0;
    }
    return cached == 1;
}

// ------------------------------------------------------------------ fixed witness cases (lowest indices)
static Vector vec(std::initializer_list<double> l) { Vector v(l.size()); size_t i = 0; for (double x : l) v[i++] = x; return v; }
static const long kFixed = 27;
static bool g_thorough = false;
// cases that exercise sawtoothInterpolation where no stored point helps (the as-found source indexes / reads
// what is not there): kept in their own cases so a crash is attributed exactly
extern const long kSawEmptyCase = 12, kSawUnhelpfulCase = 13;

static void fixed_case(long idx) {
    Surface q3; q3.ubQ.resize(3, 2); q3.ubQ << 4, 2, 3, 5, 1, 6;     // corner values 4 5 6
    Surface q1; q1.ubQ.resize(3, 1); q1.ubQ << 4, 5, 6;
    switch (idx) {
    case 0: { // two hand-made lists in the spirit of UtilsPruneTests + duplicates
        VList v{vec({1, 0}), vec({0, 1}), vec({0.5, 0.5}), vec({0.25, 0.25}), vec({1, 0}), vec({0.75, 0.75})};
        emit_ed(v, 2); emit_prune(v, 2); emit_edi(VList(v.begin(), v.begin() + 3), VList(v.begin() + 3, v.end()), 2); break; }
    case 1: { VList v{vec({3, -1, 2})}; emit_ed(v, 3); emit_prune(v, 3); emit_edi({}, v, 3); emit_edi(v, {}, 3); VList e; emit_ed(e, 3); emit_prune(e, 3); break; }
    case 2: { // convexly dominated but not pairwise: only the LP prune may drop the middle one
        VList v{vec({4, 0}), vec({0, 4}), vec({1.75, 1.75}), vec({2, 2}), vec({2.25, 2.25})};
        emit_ed(v, 2); emit_prune(v, 2); break; }
    case 3: { // tolerance chain: each link within 1e-6, ends 3 links apart
        VList v{vec({0, 0}), vec({0x1p-20, 0x1p-20}), vec({0x1p-19, 0x1p-19}), vec({0x1p-19 + 0x1p-20, 0x1p-19 + 0x1p-20})};
        emit_ed(v, 2); std::reverse(v.begin(), v.end()); emit_ed(v, 2); emit_prune(v, 2); break; }
    case 4: { // ties at a corner, lexicographic tie-break decides
        VList v{vec({1, 0, 0}), vec({1, -1, 1}), vec({1, 1, -1}), vec({0, 2, 2}), vec({1, 0.5, -2})};
        emit_ed(v, 3); emit_prune(v, 3); emit_best(v, 3, vec({1, 0, 0}), 0, 0); emit_best(v, 3, vec({0.5, 0.25, 0.25}), 1, 2);
        VList t{vec({1, 0, 0}), vec({1, 1, -1}), vec({1, 1, -1}), vec({1, 0, 0})}; emit_best(t, 3, vec({1, 0, 0}), 0, 1); break; }
    case 5: { // LPInterpolation, compatible set = first two of three stored points (weights belong to slots 3 and 4)
        Surface s = q3; s.ubV.first = {vec({0.25, 0.75, 0}), vec({0.75, 0.25, 0}), vec({0.25, 0.25, 0.5})}; s.ubV.second = {2.0, 1.0, 0.0};
        emit_interp("lpi", vec({0.5, 0.5, 0}), s); break; }
    case 6: { // LPInterpolation single compatible point, query's FIRST coordinate zero (0/0 in the ratio)
        Surface s = q3; s.ubV.first = {vec({0, 0.25, 0.75})}; s.ubV.second = {2.0};
        emit_interp("lpi", vec({0, 0.5, 0.5}), s); break; }
    case 7: { // same with the zero last / in the middle
        Surface s = q3; s.ubV.first = {vec({0.25, 0.75, 0})}; s.ubV.second = {2.0};
        emit_interp("lpi", vec({0.5, 0.5, 0}), s);
        Surface t = q3; t.ubV.first = {vec({0.25, 0, 0.75})}; t.ubV.second = {2.0};
        emit_interp("lpi", vec({0.5, 0, 0.5}), t); break; }
    case 8: { // LPInterpolation single compatible point lying ABOVE the corner surface
        Surface s = q1; s.ubV.first = {vec({0.25, 0.5, 0.25})}; s.ubV.second = {100.0};
        emit_interp("lpi", vec({0.5, 0.25, 0.25}), s); break; }
    case 9: { // sawtooth with a helpful point: weight of the point belongs to slot S+minI
        Surface s = q1; s.ubV.first = {vec({0.25, 0.5, 0.25})}; s.ubV.second = {1.0};
        emit_interp("saw", vec({0.5, 0.25, 0.25}), s); emit_interp("lpi", vec({0.5, 0.25, 0.25}), s); break; }
    case 10: { // sawtooth, second stored point is the helpful one
        Surface s = q3; s.ubV.first = {vec({0.25, 0.75, 0}), vec({0.75, 0.25, 0}), vec({0.25, 0.25, 0.5})}; s.ubV.second = {2.0, 1.0, 0.0};
        emit_interp("saw", vec({0.5, 0.5, 0}), s); break; }
    case 11: { // query equal to a stored point
        Surface s = q3; s.ubV.first = {vec({0.5, 0.25, 0.25}), vec({0.25, 0.5, 0.25})}; s.ubV.second = {2.0, 3.0};
        emit_interp("lpi", vec({0.5, 0.25, 0.25}), s); emit_interp("saw", vec({0.5, 0.25, 0.25}), s); break; }
    case 12: { // sawtooth with an EMPTY point set and a single action (basicV == v): reads ubV.first[0]
        Surface s = q1; emit_interp("saw", vec({0.5, 0.25, 0.25}), s); break; }
    case 13: { // sawtooth, the only stored point does not help, single action: minC is read uninitialised
        Surface s = q1; s.ubV.first = {vec({0.25, 0.5, 0.25})}; s.ubV.second = {100.0};
        emit_interp("saw", vec({0.5, 0.25, 0.25}), s); break; }
    case 14: { // empty point set, two actions (early exit taken): fine in the as-found source too
        Surface s = q3; emit_interp("saw", vec({0.5, 0.25, 0.25}), s); emit_interp("lpi", vec({0.5, 0.25, 0.25}), s);
        emit_interp("lpi", vec({0, 0, 1}), s);
        if (sawRepaired()) emit_interp("saw", vec({1, 0, 0}), s);   // corner query, empty set: same out-of-range read as case 12 in the as-found source
        break; }
    case 16: { // Pruner at magnitude 2^20: the witness LP (lp_solve ACCURACYERROR, mapped to "no witness") loses (-9,9,12,-16)*2^20
        const double K[7][4] = {{11,-18,21,8},{-4,-19,24,7},{-1,-13,3,14},{-4,-19,24,7},{13,8,-24,1},{-9,9,12,-16},{17,13,-21,-11}};
        for (double sc : {0x1p20, 0x1p10}) {
            VList v; for (auto & k : K) { Vector x(4); for (int s = 0; s < 4; ++s) x[s] = k[s] * sc; v.push_back(x); }
            v[3].array() += 0x1p-16;
            emit_prune(v, 4); emit_ed(v, 4);
        }
        break; }
    case 17: { // interpolation at magnitude 2^20 (same surfaces as cases 5 and 9, values scaled)
        Surface s = q3; s.ubQ *= 0x1p20; s.ubV.first = {vec({0.25, 0.75, 0}), vec({0.75, 0.25, 0}), vec({0.25, 0.25, 0.5})}; s.ubV.second = {2.0 * 0x1p20, 1.0 * 0x1p20, 0.0};
        emit_interp("lpi", vec({0.25, 0.5, 0.25}), s); emit_interp("saw", vec({0.25, 0.5, 0.25}), s); break; }
    case 18: case 19: case 20: case 21: { // exact ties at a corner, EVERY input order (4-d: every order in the thorough tier, every 24th otherwise)
        static const std::vector<VList> sets{
            {vec({1, 0.2, 0.2}), vec({1, 0.5, 0}), vec({1, 0, 0.5}), vec({0, 2, 0}), vec({0, 0, 2})},                    // (1,.2,.2) nowhere needed
            {vec({-4, -4, -1}), vec({-2, -6, -1}), vec({-6, -2, -1}), vec({0, -9, -9}), vec({-9, 0, -9})},              // tie at the last corner, negative values
            {vec({1, 0.5, 0}), vec({1, 0, 0.5}), vec({1, 0.3, 0.3}), vec({0, 2, 0}), vec({0, 0, 2})},                    // control: all tied vectors needed
            {vec({5, 1, 1, 1}), vec({5, 4, 0, 0}), vec({5, 0, 4, 0}), vec({5, 0, 0, 4}), vec({0, 9, 0, 0}), vec({0, 0, 9, 0}), vec({0, 0, 0, 9})}};
        const VList & base = sets[idx - 18];
        std::vector<size_t> perm(base.size()); std::iota(perm.begin(), perm.end(), 0);
        size_t k = 0;
        do { if (base.size() <= 5 || g_thorough || k % 24 == 0) { VList v; for (auto i : perm) v.push_back(base[i]); emit_prune(v, base[0].size()); }
             ++k; } while (std::next_permutation(perm.begin(), perm.end()));
        break; }
    case 22: { // regression input for `skip within_tolerance`: (3/4,-3/4) lies 1.67e-7 below the envelope of the two others everywhere, findWitness
               // accepts it on lp_solve noise and Pruner keeps it: a near-tie inside the documented tolerance, not an exact tie
        const Vector k0 = vec({std::ldexp(3377706475927313.0, -52), std::ldexp(-6755421959053881.0, -53)});   // (0.7500015, -0.7500025)
        VList v{vec({0.75, -0.75}), k0, vec({0, 0.75})};
        emit_prune(v, 2);
        VList w{vec({0.75, -0.75}), vec({0.75, std::ldexp(-6755408448254999.0, -53)}), vec({0.75, std::ldexp(-6755421959053881.0, -53)}),
                vec({0.75, std::ldexp(-6755425628124183.0, -53)}), k0, vec({0, 0.75}), vec({-0.75, -1.75}), vec({-0.75, -1.5}),
                vec({std::ldexp(-6755394937456117.0, -53), -1.5}), vec({0.75, std::ldexp(-6755408456643607.0, -53)})};   // as found: seed 2 quick case 2353
        emit_prune(w, 2);
        break; }
    case 23: { // frozen witness of C12-witnesslp-hang: lp_solve's dual simplex (devex pricing) cycles in the third findWitness call
               // of Pruner(6) on these 12 vectors (entries up to 2^23); scaled by 2^-10 the same set is pruned to 9 vectors at once
        VList v{
            vec({std::ldexp(7.0, 20), std::ldexp(1.0, 21), std::ldexp(0.0, 0), std::ldexp(-7.0, 20), std::ldexp(1.0, 21), std::ldexp(-1.0, 21)}),
            vec({std::ldexp(-1.0, 20), std::ldexp(-3.0, 20), std::ldexp(-1.0, 23), std::ldexp(7.0, 20), std::ldexp(-7.0, 20), std::ldexp(5.0, 20)}),
            vec({std::ldexp(-1.0, 20), std::ldexp(-7.0, 20), std::ldexp(-7.0, 20), std::ldexp(-1.0, 23), std::ldexp(3.0, 20), std::ldexp(1.0, 23)}),
            vec({std::ldexp(-34359738367.0, -15), std::ldexp(-240518168575.0, -15), std::ldexp(-240518168575.0, -15), std::ldexp(-274877906943.0, -15), std::ldexp(103079215105.0, -15), std::ldexp(274877906945.0, -15)}),
            vec({std::ldexp(1.0, 22), std::ldexp(5.0, 20), std::ldexp(3.0, 20), std::ldexp(-5.0, 20), std::ldexp(1.0, 21), std::ldexp(-1.0, 22)}),
            vec({std::ldexp(3.0, 20), std::ldexp(-1.0, 22), std::ldexp(5.0, 20), std::ldexp(-3.0, 20), std::ldexp(1.0, 20), std::ldexp(-3.0, 20)}),
            vec({std::ldexp(3.0, 21), std::ldexp(-1.0, 20), std::ldexp(-3.0, 20), std::ldexp(1.0, 21), std::ldexp(5.0, 20), std::ldexp(-1.0, 23)}),
            vec({std::ldexp(3.0, 21), std::ldexp(-5.0, 20), std::ldexp(3.0, 20), std::ldexp(1.0, 20), std::ldexp(-1.0, 23), std::ldexp(-7.0, 20)}),
            vec({std::ldexp(7.0, 20), std::ldexp(-1.0, 21), std::ldexp(0.0, 0), std::ldexp(-1.0, 22), std::ldexp(3.0, 20), std::ldexp(1.0, 22)}),
            vec({std::ldexp(0.0, 0), std::ldexp(1.0, 21), std::ldexp(1.0, 22), std::ldexp(-3.0, 20), std::ldexp(-3.0, 21), std::ldexp(1.0, 20)}),
            vec({std::ldexp(240518168577.0, -15), std::ldexp(-68719476735.0, -15), std::ldexp(1.0, -15), std::ldexp(-137438953471.0, -15), std::ldexp(103079215105.0, -15), std::ldexp(137438953473.0, -15)}),
            vec({std::ldexp(1.0, 22), std::ldexp(-1.0, 22), std::ldexp(1.0, 23), std::ldexp(1.0, 22), std::ldexp(1.0, 20), std::ldexp(-3.0, 21)})};
        emit_prune(v, 6);
        for (auto & x : v) x *= 0x1p-10;
        emit_prune(v, 6);
        break; }
    case 24: { // mixed magnitudes inside one set (the regime of WitnessLP's row scaling): vectors only the witness LP finds
        for (int k : {17, 20, 24, 28}) {
            const double H = std::ldexp(1.0, k);
            VList a{vec({H, -H}), vec({-H, H}), vec({0.5, 0.5})};                      // flat vector between an opposed huge pair: needed at (1/2,1/2)
            emit_prune(a, 2); emit_wlp({a[0], a[1]}, a[2], a[2], 2);
            VList b{vec({H, -1, -1}), vec({-H, 4, 0}), vec({-H, 0, 2}), vec({-H, 2.25, 1.25})};   // needed only around (0,1/3,2/3): no corner, no midpoint
            emit_prune(b, 3); emit_wlp({b[0], b[1], b[2]}, b[3], b[1], 3);
            VList c{vec({-H, 4, 0}), vec({H, -1, -1}), vec({-H, 2.25, 1.25}), vec({-H, 0, 2}), vec({-H, 1.5, 0.75})};   // last one is covered by the others
            emit_prune(c, 3); emit_ed(c, 3);
            VList d{vec({3, 0, H}), vec({0, 3, H}), vec({1.75, 1.75, H}), vec({1.25, 1.25, H}), vec({-1, -1, 2 * H})};   // huge state shared: (1.75,1.75,H) needed, (1.25,1.25,H) not
            emit_prune(d, 3);
            VList small{vec({4, 0, 1}), vec({0, 4, 1}), vec({2.5, 2.5, 0}), vec({1, 1, 3}), vec({1.5, 1.5, 1.5})};     // order-one set on a Pruner that has just seen the huge one, and the reverse
            emit_prune(small, 3, &b); emit_prune(b, 3, &small);
        }
        break; }
    case 25: { // WitnessLP directly at the boundaries of its row scaling (first row's largest entry 2^16 | 2^17 | 2^-16 | 2^-17 | 0), no rows at all
        for (double m : {0x1p16, 0x1.8p16, 0x1p17, 0x1.fp17, 0x1p-16, 0x1p-17, 0x1.8p-18, 0.0}) {
            emit_wlp({vec({m, -m, 0}), vec({-m, m, 0})}, vec({m / 4, m / 4, 0}), vec({-m, -m, -1}), 3);
            emit_wlp({vec({m, 1, 0}), vec({0, 1, m}), vec({1, 0, 1})}, vec({0.75, 0.75, 0.75}), vec({m / 2, 1, m / 2}), 3);
        }
        emit_wlp({}, vec({0x1p20, 1}), vec({-1, -0x1p20}), 2);
        emit_wlp({vec({3, 1})}, vec({0x1p20, 1}), vec({1, 3}), 2);                  // the scale comes from the FIRST optimal row, not from the question
        break; }
    case 26: { // frozen witness of C12-witnesslp-mixed-magnitudes (found by the mixed-magnitude generator, seed 1): entries 3*2^23 next to
               // order-one entries; (-3/4, 3*2^23, -3*2^23 + 1/4) is 1/8 above all others at (0,1/2,1/2), where the envelope of the rest is 0;
               // lp_solve (default scaling mode 196) reports INFEASIBLE for the feasible witness LP, Pruner drops the vector
        const double H = 0x1p23;
        emit_wlp({vec({1.25, 3 * H, -3 * H}), vec({0.5, -3 * H, 3 * H})}, vec({-0.75, 3 * H, -3 * H + 0.25}), vec({-0.75, 3 * H, -3 * H + 0.25}), 3);
        VList v{vec({-2.5, -2 * H, 2 * H}), vec({-2.75, -3 * H, 3 * H}), vec({-0.75, 3 * H, -3 * H + 0.25}), vec({-1, 3 * H, -3 * H}), vec({1.25, 3 * H, -3 * H}), vec({0.5, -3 * H, 3 * H})};
        emit_prune(v, 3);
        break; }
    case 15: { // dominates(): both clauses, boundaries
        emit_dom(vec({1, 1}), vec({1, 1})); emit_dom(vec({1, 1}), vec({1 + 0x1p-20, 1})); emit_dom(vec({1, 1}), vec({1 + 0x1p-19, 1}));
        emit_dom(vec({0x1p22, 0x1p22}), vec({0x1p22 + 0x1p-16, 0x1p22})); emit_dom(vec({-0x1p22, 1}), vec({-0x1p22 + 0x1p-16, 1}));
        emit_dom(vec({0, 0}), vec({1e-6, 0})); emit_dom(vec({-1, 2}), vec({-1, 2.5})); break; }
    }
}

// ------------------------------------------------------------------ case loop
static long nRandom(const std::string & tier) { return tier == "thorough" ? 12000 : 2500; }
static long nMixed(const std::string & tier) { return tier == "thorough" ? 4000 : 700; }
long verif::verif_ncases(const std::string & tier) { return kFixed + nRandom(tier) + nMixed(tier); }

static Surface genSurface(Rng & rng, size_t S, size_t A, size_t N, const Vector & query, int & shape);
static void emit_interp(const char * op, const Vector & point, const Surface & sf);

// round 3: mixed magnitudes inside one set, through Pruner, extractDominated+Pruner, incremental unions + Pruner, WitnessLP
// directly, and the two bound routines
static void mixed_case(Rng & rng, bool thorough) {
    const unsigned sub = (unsigned)rng.below(10);
    if (sub < 8) {
        const size_t S = 2 + rng.below(5), n = 3 + rng.below(thorough ? 14 : 10);
        int kind, expo; VList vs = genMixed(rng, S, n, kind, expo);
        std::printf("#stat mixed_kind%d 1\n#stat mixed_expo%d 1\n#stat mixed_dim%zu 1\n", kind, expo, S);
        if (sub < 3) { std::puts("#stat mixed_op_prune 1");
                       if (rng.coin()) emit_prune(vs, S);
                       else {   // the same Pruner object has just pruned a set of another magnitude (2^-10 .. 2^-30 times this one, or the reverse)
                           VList other = vs; const double f = std::ldexp(1.0, -(10 + (int)rng.below(21))); for (auto & x : other) x *= f;
                           if (rng.coin()) emit_prune(vs, S, &other); else emit_prune(other, S, &vs); } }
        else if (sub < 5) {   // extractDominated, erase, Pruner (the pipeline of the exact solvers)
            std::puts("#stat mixed_op_ed_then_prune 1");
            emit_ed(vs, S); VList k = vs; k.erase(extractDominated(k.begin(), k.end()), k.end()); emit_prune(k, S); }
        else if (sub < 7) {   // IncrementalPruning style: a pruned old set, new vectors, incremental domination, Pruner on the union's survivors
            std::puts("#stat mixed_op_union 1");
            const size_t k = 1 + rng.below(vs.size() - 1);
            VList o(vs.begin(), vs.begin() + k), nw(vs.begin() + k, vs.end());
            { Pruner pr(S); o.erase(pr(o.begin(), o.end()), o.end()); }
            emit_edi(o, nw, S);
            VList arr = o; arr.insert(arr.end(), nw.begin(), nw.end());
            auto [a, b, c] = extractDominatedIncremental(arr.begin(), arr.begin() + o.size(), arr.end()); (void)a; (void)c;
            arr.erase(b, arr.end()); emit_prune(arr, S); }
        else {                // WitnessLP directly: rows = a prefix, questions = two other members
            std::puts("#stat mixed_op_wlp 1");
            const size_t k = 1 + rng.below(vs.size() - 1);
            emit_wlp(VList(vs.begin(), vs.begin() + k), vs[k + rng.below(vs.size() - k)], vs[rng.below(vs.size())], S); }
    } else {
        const size_t S = 2 + rng.below(4), A = 1 + rng.below(3), N = 1 + rng.below(thorough ? 8 : 5);
        const Vector query = genBelief(rng, S, 4, rng.coin() ? 0 : 3);
        int shape; Surface sf = genSurface(rng, S, A, N, query, shape);
        // one huge state: its corner values (all actions) and, consistently, the stored values move by p[h]*H
        const size_t h = rng.below(S); const int expo = 17 + (int)rng.below(8); const double H = std::ldexp(1.0, expo) * (double)rng.range(1, 3) * (rng.coin() ? 1.0 : -1.0);
        for (size_t a = 0; a < A; ++a) sf.ubQ(h, a) += H;
        for (size_t j = 0; j < N; ++j) sf.ubV.second[j] += sf.ubV.first[j][h] * H;
        std::printf("#stat mixed_op_interp 1\n#stat mixed_expo%d 1\n", expo);
        emit_interp("lpi", query, sf); emit_interp("saw", query, sf);
    }
}

void verif::verif_case(Rng & rng, long idx, const std::string & tier) {
    const bool thorough = tier == "thorough";
    g_thorough = thorough;
    if (idx < kFixed) { fixed_case(idx); return; }
    if (idx >= kFixed + nRandom(tier)) { mixed_case(rng, thorough); return; }
    const unsigned kind = (unsigned)rng.below(10);
    if (kind < 6) {
        const size_t S = 1 + rng.below(6);
        const size_t nmax = thorough ? 40 : 16;
        size_t n = rng.coin(1, 12) ? rng.below(3) : 1 + rng.below(nmax);
        int shape; VList vs = genVectors(rng, S, n, shape);
        std::printf("#stat shape%d 1\n#stat dim%zu 1\n", shape, S);
        if (kind < 2 && n && rng.coin(1, 3)) { VList bp; const size_t np = rng.below(9); for (size_t i = 0; i < np; ++i) bp.push_back(rng.coin(1, 5) && i ? bp[rng.below(i)] : genBelief(rng, S, 3, 2)); emit_bup(bp, vs, S); }
        if (kind < 2) { emit_ed(vs, S); if (n >= 2) emit_dom(vs[rng.below(n)], vs[rng.below(n)]);
                        if (n) { const size_t c = rng.below(S); emit_best(vs, S, rng.coin() ? Vector(Vector::Unit(S, c)) : genBelief(rng, S, 3, 4), c, rng.below(n + 1)); } }
        else if (kind < 4) { size_t k = rng.below(n + 1); emit_edi(VList(vs.begin(), vs.begin() + k), VList(vs.begin() + k, vs.end()), S);
                             // the documented use: old part already pruned
                             VList o(vs.begin(), vs.begin() + k); o.erase(extractDominated(o.begin(), o.end()), o.end());
                             emit_edi(o, VList(vs.begin() + k, vs.end()), S); }
        else { if (vs.size() > (thorough ? 24u : 12u)) vs.resize(thorough ? 24 : 12); emit_prune(vs, S);
               if (rng.coin(1, 3)) { const size_t S2 = 3 + rng.below(2); bool useless; VList ct = genCornerTie(rng, S2, useless);
                                     std::printf("#stat corner_tie_dim%zu 1\n#stat corner_tie_%s 1\n", S2, useless ? "with_useless" : "control"); emit_prune(ct, S2); } }
    } else {
        const size_t S = 1 + rng.below(5), A = 1 + rng.below(3), N = rng.coin(1, 8) ? rng.below(2) : 1 + rng.below(thorough ? 10 : 6);
        const Vector query = rng.coin(1, 10) ? Vector(Vector::Unit(S, rng.below(S))) : genBelief(rng, S, 4, rng.coin() ? 0 : 3);
        int shape; Surface sf = genSurface(rng, S, A, N, query, shape);
        if (S >= 2 && rng.coin(1, 6)) {   // coordinates straddling the zero tolerance (2^-21 < 1e-6 < 2^-19), mass taken from the largest entry
            auto tweak = [&](Vector & b) { Eigen::Index mx; b.maxCoeff(&mx); size_t s = rng.below(S); if ((Eigen::Index)s == mx) return;
                                           const double t = rng.coin() ? 0x1p-21 : 0x1p-19; if (b[s] == 0.0) { b[s] = t; b[mx] -= t; } };
            Vector q2 = query; tweak(q2); for (auto & p : sf.ubV.first) if (rng.coin(1, 3)) tweak(p);
            std::puts("#stat tiny_coordinates 1");
            emit_interp("lpi", q2, sf); if (N > 0 || sawRepaired()) emit_interp("saw", q2, sf);
        }
        if (rng.coin(1, 12)) { sf.ubQ *= 0x1p20; for (auto & v : sf.ubV.second) v *= 0x1p20; std::puts("#stat interp_large_magnitude 1"); }
        std::printf("#stat ishape%d 1\n#stat idim%zu 1\n#stat npts%zu 1\n", shape, S, N);
        // the as-found sawtooth indexes an empty point set when basicV == v; that defect has its own fixed case (12),
        // so random cases with an empty point set go to sawtooth only when the source is repaired
        emit_interp("lpi", query, sf);
        if (N > 0 || sawRepaired()) emit_interp("saw", query, sf); else std::puts("#stat saw_skipped_empty_point_set 1");
    }
}

VERIF_MAIN
