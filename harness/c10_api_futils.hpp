// harness/c10_api_futils.hpp — included by harness/c10.cpp AFTER "common/verif.hpp" and "common/gen.hpp"
//
// C10 public-API sweep, area "futils": AIToolbox/Factored/Utils/{APSP,BayesianNetwork,Core,FactorGraph,FactoredMatrix,
// GenericVariableElimination}.hpp. Every call follows a documented sequence with valid arguments; every oracle is an
// independent brute-force recomputation over the (tiny) joint space. All helper names live in c10api::fu.
//
// Deliberately NOT called (declared in a public header but defined nowhere in the library, a call cannot link):
//   - buildAdjacencyList(const Action &, const FactorGraph<Factor> &)          APSP.hpp:9
//   - plus(const Factors &, const Factors &, const BasisMatrix &, const BasisMatrix &)   FactoredMatrix.hpp:234
#pragma once
#include <algorithm>
#include <cstdlib>
#include <limits>
#include <random>
#include <set>
#include <utility>
#include <vector>

#include <AIToolbox/Types.hpp>
#include <AIToolbox/Factored/Types.hpp>
#include <AIToolbox/Factored/Utils/Core.hpp>
#include <AIToolbox/Factored/Utils/FactorGraph.hpp>
#include <AIToolbox/Factored/Utils/APSP.hpp>
#include <AIToolbox/Factored/Utils/FactoredMatrix.hpp>
#include <AIToolbox/Factored/Utils/BayesianNetwork.hpp>
#include <AIToolbox/Factored/Utils/GenericVariableElimination.hpp>

namespace c10api {
namespace fu {
    namespace aif = AIToolbox::Factored;
    using Keys = std::vector<size_t>;

    inline void emit(const char * what, bool ok) {
        verif::Line l; l << "C10" << "range" << what << "|" << ok; l.emit();
    }

    // non-uniform sizes in [1,maxv]; exact capacity so that one-past-the-end reads are visible
    inline Keys space(verif::Rng & rng, size_t n, size_t maxv) {
        Keys s(n);
        for (auto & x : s) x = (size_t)rng.range(1, (int64_t)maxv);
        s.shrink_to_fit();
        return s;
    }
    // sorted subset of `from` with at least `minSize` elements (from must have >= minSize elements)
    inline Keys subsetOf(verif::Rng & rng, const Keys & from, size_t minSize) {
        Keys out;
        for (auto k : from) if (rng.coin()) out.push_back(k);
        while (out.size() < minSize) {
            const auto k = from[rng.below(from.size())];
            if (std::find(out.begin(), out.end(), k) == out.end()) out.push_back(k);
        }
        std::sort(out.begin(), out.end());
        out.shrink_to_fit();
        return out;
    }
    inline Keys iota(size_t n) { Keys k(n); for (size_t i = 0; i < n; ++i) k[i] = i; return k; }
    inline Keys subset(verif::Rng & rng, size_t n, size_t minSize) { return subsetOf(rng, iota(n), minSize); }

    inline size_t prod(const Keys & keys, const Keys & sp) { size_t p = 1; for (auto k : keys) p *= sp[k]; return p; }
    // own mixed-radix index of the full value x restricted to keys (lowest key varies fastest, Core.hpp:372)
    inline size_t index(const Keys & keys, const Keys & sp, const Keys & x) {
        size_t r = 0, m = 1;
        for (auto k : keys) { r += m * x[k]; m *= sp[k]; }
        return r;
    }
    // own odometer over the full space; returns false when wrapped
    inline bool next(const Keys & sp, Keys & x) {
        for (size_t i = 0; i < sp.size(); ++i) {
            if (++x[i] < sp[i]) return true;
            x[i] = 0;
        }
        return false;
    }
    inline Keys randomValue(verif::Rng & rng, const Keys & sp) {
        Keys x(sp.size());
        for (size_t i = 0; i < sp.size(); ++i) x[i] = rng.below(sp[i]);
        x.shrink_to_fit();
        return x;
    }
    // dyadic value, mixed signs, sometimes large; all sums/products of a handful of these are exact in double
    inline double val(verif::Rng & rng) {
        double v = (double)rng.range(-64, 64) / 8.0;
        if (rng.coin(1, 6)) v *= 1073741824.0; // 2^30
        return v;
    }
    inline double scalar(verif::Rng & rng) {
        if (rng.coin(1, 8)) return 0.0;
        return (double)rng.range(-16, 16) / 4.0;
    }
    inline bool close(double a, double b) { return std::fabs(a - b) <= 1e-9 * (1.0 + std::fabs(a) + std::fabs(b)); }

    inline aif::BasisFunction basisFunction(verif::Rng & rng, const Keys & sp, Keys tag) {
        aif::BasisFunction b;
        b.tag = std::move(tag);
        b.values.resize(prod(b.tag, sp));
        for (long i = 0; i < b.values.size(); ++i) b.values[i] = val(rng);
        return b;
    }
    inline aif::BasisMatrix basisMatrix(verif::Rng & rng, const Keys & S, const Keys & A, Keys tag, Keys atag) {
        aif::BasisMatrix b;
        b.tag = std::move(tag); b.actionTag = std::move(atag);
        b.values.resize(prod(b.tag, S), prod(b.actionTag, A));
        for (long i = 0; i < b.values.rows(); ++i)
            for (long j = 0; j < b.values.cols(); ++j) b.values(i, j) = val(rng);
        return b;
    }
    inline double eval(const aif::BasisFunction & b, const Keys & sp, const Keys & x) { return b.values[index(b.tag, sp, x)]; }
    inline double eval(const aif::BasisMatrix & b, const Keys & S, const Keys & A, const Keys & s, const Keys & a) {
        return b.values(index(b.tag, S, s), index(b.actionTag, A, a));
    }

    // ---------------------------------------------------------------------------------------------------------------
    // Core.hpp: makeRandomValue, join x2, unsafe_join, toFactorsPartial(It), toIndexPartial(keys, space, PartialFactors),
    //           PartialFactorsEnumerator::operator->, PartialIndexEnumerator::reset
    inline void core(verif::Rng & rng) {
        const size_t n = (size_t)rng.range(1, 5);
        const Keys sp = space(rng, n, 4);
        std::printf("#stat api_futils_core_n%zu 1\n", n);

        { // makeRandomValue: "randomly generates a valid value inside the provided space"
            AIToolbox::RandomEngine gen((unsigned)rng.next());
            bool ok = true;
            for (int rep = 0; rep < 3; ++rep) {
                const aif::Factors v = aif::makeRandomValue(sp, gen);
                ok = ok && v.size() == sp.size();
                for (size_t i = 0; ok && i < n; ++i) ok = v[i] < sp[i];
            }
            emit("FactoredCore.makeRandomValue_in_space", ok);
        }
        { // join / unsafe_join
            const size_t n2 = (size_t)rng.range(1, 4);
            const Keys sp2 = space(rng, n2, 4);
            const Keys lk = subset(rng, n, rng.below(n + 1)), rk = subset(rng, n2, rng.below(n2 + 1)); // empty allowed
            aif::PartialFactors lhs{lk, {}}, rhs{rk, {}};
            for (auto k : lk) lhs.second.push_back(rng.below(sp[k]));
            for (auto k : rk) rhs.second.push_back(rng.below(sp2[k]));
            lhs.first.shrink_to_fit(); lhs.second.shrink_to_fit(); rhs.first.shrink_to_fit(); rhs.second.shrink_to_fit();

            Keys expK = lk, expV = lhs.second;
            for (auto k : rk) expK.push_back(k + n);
            expV.insert(expV.end(), rhs.second.begin(), rhs.second.end());

            const aif::PartialKeys jk = aif::join(n, lk, rk);
            emit("FactoredCore.join_keys_appends_shifted", jk == expK);

            aif::PartialFactors inplace = lhs;
            aif::join(n, &inplace, rhs);
            emit("FactoredCore.join_inplace_appends_shifted", inplace.first == expK && inplace.second == expV);
            // the value-returning overload must agree with the in-place one
            const aif::PartialFactors byValue = aif::join(n, lhs, rhs);
            emit("FactoredCore.join_inplace_equals_join_value", byValue == inplace);
            // the joined PartialFactors is a valid one in the joined space
            const aif::Factors joinedSpace = aif::join(sp, sp2);
            bool valid = inplace.first.empty() || aif::checkTag(joinedSpace, inplace.first).first == aif::TagErrors::None;
            for (size_t i = 0; valid && i < inplace.first.size(); ++i) valid = inplace.second[i] < joinedSpace[inplace.first[i]];
            emit("FactoredCore.join_result_valid_in_joined_space", valid);

            // unsafe_join: plain concatenation, no shift; several in succession, as documented
            aif::PartialFactors u = lhs;
            aif::unsafe_join(&u, rhs);
            aif::unsafe_join(&u, lhs);
            Keys uk = lk, uv = lhs.second;
            uk.insert(uk.end(), rk.begin(), rk.end()); uv.insert(uv.end(), rhs.second.begin(), rhs.second.end());
            uk.insert(uk.end(), lk.begin(), lk.end()); uv.insert(uv.end(), lhs.second.begin(), lhs.second.end());
            emit("FactoredCore.unsafe_join_concatenates", u.first == uk && u.second == uv);
        }
        { // toFactorsPartial(It, ...) <-> toIndexPartial(keys, space, PartialFactors)
            const Keys ids = subset(rng, n, 1);                 // non-prefix, non-contiguous in general
            const Keys sup = subsetOf(rng, iota(n), 0);         // the PartialFactors holds a superset of ids
            Keys pfk = sup; for (auto k : ids) if (std::find(pfk.begin(), pfk.end(), k) == pfk.end()) pfk.push_back(k);
            std::sort(pfk.begin(), pfk.end());
            const size_t total = prod(ids, sp);
            bool okRound = true, okSame = true, okOwn = true, okBound = true;
            const Keys x0 = randomValue(rng, sp);
            for (size_t id = 0; id < total; ++id) {
                Keys out(ids.size(), 12345); out.shrink_to_fit();
                aif::toFactorsPartial(out.begin(), ids, sp, id);
                okSame = okSame && out == aif::toFactorsPartial(ids, sp, id);
                // own decode
                size_t rest = id;
                for (size_t i = 0; i < ids.size(); ++i) { okOwn = okOwn && out[i] == rest % sp[ids[i]]; okBound = okBound && out[i] < sp[ids[i]]; rest /= sp[ids[i]]; }
                // back through a PartialFactors holding a superset of the ids
                aif::PartialFactors pf; pf.first = pfk; pf.second.resize(pfk.size());
                for (size_t j = 0; j < pfk.size(); ++j) pf.second[j] = x0[pfk[j]];
                for (size_t i = 0; i < ids.size(); ++i)
                    pf.second[std::find(pfk.begin(), pfk.end(), ids[i]) - pfk.begin()] = out[i];
                pf.first.shrink_to_fit(); pf.second.shrink_to_fit();
                okRound = okRound && aif::toIndexPartial(ids, sp, pf) == id;
            }
            // raw pointer as the output iterator as well
            { Keys out(ids.size()); size_t id = rng.below(total); aif::toFactorsPartial(out.data(), ids, sp, id); okSame = okSame && out == aif::toFactorsPartial(ids, sp, id); }
            emit("FactoredCore.toFactorsPartial_iterator_equals_value_version", okSame);
            emit("FactoredCore.toFactorsPartial_iterator_mixed_radix", okOwn && okBound);
            emit("FactoredCore.toIndexPartial_partialfactors_round_trip", okRound);
        }
        { // PartialFactorsEnumerator::operator->
            const Keys keys = subset(rng, n, 1);
            aif::PartialFactorsEnumerator e(sp, keys);
            const size_t expected = prod(keys, sp);
            bool ok = e.size() == expected, okOrder = true;
            size_t count = 0;
            for (; e.isValid() && count <= expected; e.advance(), ++count) {
                ok = ok && e->first == keys && e->second.size() == keys.size() && e.operator->() == &(*e);
                for (size_t i = 0; ok && i < keys.size(); ++i) ok = e->second[i] < sp[keys[i]];
                // "the relative ordering of the ids is the same as the one iterated by the PartialFactorsEnumerator"
                if (ok) okOrder = okOrder && aif::toIndexPartial(keys, sp, *e) == count;
            }
            emit("PartialFactorsEnumerator.arrow_gives_current_value", ok && count == expected);
            emit("PartialFactorsEnumerator.arrow_order_matches_toIndexPartial", okOrder);
        }
        { // PartialIndexEnumerator::reset
            const Keys keys = subset(rng, n, 1);
            const size_t fixed = keys[rng.below(keys.size())];
            const size_t v = rng.below(sp[fixed]);
            // oracle: positions in the PartialFactorsEnumerator sequence where `fixed` has value v
            Keys expect;
            {
                aif::PartialFactorsEnumerator e(sp, keys);
                const size_t pos = std::find(keys.begin(), keys.end(), fixed) - keys.begin();
                for (size_t i = 0; e.isValid(); e.advance(), ++i) if ((*e).second[pos] == v) expect.push_back(i);
            }
            aif::PartialIndexEnumerator pie(sp, keys, fixed, v);
            Keys first, second, third;
            const size_t cap = prod(keys, sp) + 2;
            for (; pie.isValid() && first.size() < cap; pie.advance()) first.push_back(*pie);
            pie.reset();                                           // reset after exhaustion
            for (; pie.isValid() && second.size() < cap; pie.advance()) second.push_back(*pie);
            pie.reset();
            if (pie.isValid()) pie.advance();
            pie.reset();                                           // reset in the middle
            for (; pie.isValid() && third.size() < cap; pie.advance()) third.push_back(*pie);
            emit("PartialIndexEnumerator.reset_replays_sequence", first == second && first == third);
            emit("PartialIndexEnumerator.sequence_in_sync_with_enumerator", first == expect);

            // all-factors constructor, fixed factor anywhere
            const size_t f2 = rng.below(n), v2 = rng.below(sp[f2]);
            aif::PartialIndexEnumerator pie2(sp, f2, v2);
            Keys a, b, exp2;
            { Keys x(n, 0); size_t i = 0; do { if (x[f2] == v2) exp2.push_back(i); ++i; } while (next(sp, x)); }
            const size_t cap2 = prod(iota(n), sp) + 2;
            for (; pie2.isValid() && a.size() < cap2; pie2.advance()) a.push_back(*pie2);
            pie2.reset();
            for (; pie2.isValid() && b.size() < cap2; pie2.advance()) b.push_back(*pie2);
            emit("PartialIndexEnumerator.reset_replays_sequence_all_factors", a == b && a == exp2);
        }
    }

    // ---------------------------------------------------------------------------------------------------------------
    // FactorGraph::cbegin/cend/bestVariableToRemove, buildAdjacencyList(graph), APSP(graph)
    using Graph = aif::FactorGraph<AIToolbox::Vector>;

    inline std::vector<Keys> populate(verif::Rng & rng, Graph & g, size_t n, size_t nf, const Keys & allowed) {
        std::set<Keys> distinct;
        for (size_t f = 0; f < nf; ++f) {
            Keys vars = subsetOf(rng, allowed, 1);
            if (vars.size() > 3) vars.resize(3);
            auto it = g.getFactor(vars);
            it->getData() = AIToolbox::Vector::Constant(1, (double)f);
            distinct.insert(vars);
            if (rng.coin(1, 4)) { auto again = g.getFactor(vars); (void)again; }   // same input: no new factor
        }
        (void)n;
        return std::vector<Keys>(distinct.begin(), distinct.end());
    }

    inline void factorGraph(verif::Rng & rng) {
        const size_t n = (size_t)rng.range(1, 6);
        const size_t nf = rng.below(7);
        std::printf("#stat api_futils_graph_n%zu 1\n", n);
        const Keys sp = space(rng, n, 4);
        Graph g(n);
        const auto factors = populate(rng, g, n, nf, iota(n));

        { // cbegin/cend on the concrete (non-const) object and on a const view
            size_t count = 0; bool ok = true;
            for (auto it = g.cbegin(); it != g.cend() && count <= factors.size(); ++it, ++count)
                ok = ok && std::find(factors.begin(), factors.end(), it->getVariables()) != factors.end() && g.getVariables(it) == it->getVariables();
            const Graph & cg = g;
            ok = ok && cg.cbegin() == cg.begin() && cg.cend() == cg.end();
            emit("FactorGraph.cbegin_cend_span_all_factors", ok && count == factors.size() && g.factorSize() == factors.size());
        }
        // adjacency and distances, own computation
        std::vector<std::set<size_t>> adj(n);
        for (const auto & f : factors) for (auto a : f) for (auto b : f) if (a != b) adj[a].insert(b);
        {
            const auto al = aif::buildAdjacencyList(g);
            bool ok = al.size() == n;
            for (size_t a = 0; ok && a < n; ++a) ok = al[a] == Keys(adj[a].begin(), adj[a].end());
            emit("FactoredAPSP.buildAdjacencyList_matches_shared_factors", ok);
        }
        {
            const size_t INF = 1000;
            std::vector<Keys> d(n, Keys(n, INF));
            for (size_t a = 0; a < n; ++a) { d[a][a] = 0; for (auto b : adj[a]) d[a][b] = 1; }
            for (size_t k = 0; k < n; ++k) for (size_t i = 0; i < n; ++i) for (size_t j = 0; j < n; ++j)
                d[i][j] = std::min(d[i][j], d[i][k] + d[k][j]);
            size_t diam = 0;
            for (size_t i = 0; i < n; ++i) for (size_t j = 0; j < n; ++j) if (d[i][j] < INF) diam = std::max(diam, d[i][j]);
            emit("FactoredAPSP.APSP_equals_floyd_warshall_diameter", aif::APSP(g) == diam);
        }
        { // bestVariableToRemove: the way GenericVariableElimination uses it, interleaved with erase()
            std::vector<bool> erased(n, false);
            bool ok = true;
            Graph copy(g);                                     // documented copy constructor; work on the copy
            size_t active = n;
            while (active > 0 && ok) {
                ok = copy.variableSize() == active;
                const size_t v = copy.bestVariableToRemove(sp);
                ok = ok && v < n && !erased[v];
                if (!ok) break;
                // remove it or, sometimes, some other active variable
                size_t victim = v;
                if (rng.coin(1, 3)) { do victim = rng.below(n); while (erased[victim]); }
                copy.erase(victim); erased[victim] = true; --active;
                if (rng.coin(1, 4)) copy.erase(victim);         // "Removing the same variable more than once does not do anything"
            }
            emit("FactorGraph.bestVariableToRemove_returns_active_variable", ok && copy.variableSize() == 0);
            // the original is untouched by what happened to the copy
            emit("FactorGraph.copy_is_independent", g.variableSize() == n && g.factorSize() == factors.size() && g.bestVariableToRemove(sp) < n);
        }
        { // reset(), then everything once more on the recycled object (nodes now come from the static pool)
            const size_t n2 = (size_t)rng.range(1, 5);
            g.reset(n2);
            bool ok = g.variableSize() == n2 && g.factorSize() == 0 && g.cbegin() == g.cend() && aif::APSP(g) == 0;
            const auto f2 = populate(rng, g, n2, rng.below(4), iota(n2));
            size_t count = 0;
            for (auto it = g.cbegin(); it != g.cend() && count <= f2.size(); ++it) ++count;
            const Keys sp2 = space(rng, n2, 3);
            ok = ok && count == f2.size() && g.bestVariableToRemove(sp2) < n2 && aif::buildAdjacencyList(g).size() == n2;
            emit("FactorGraph.usable_after_reset", ok);
        }
    }

    // Candidate defect, kept out of the default sweep because it aborts the process under ASan (heap-buffer-overflow):
    // APSP()/buildAdjacencyList() size their per-variable tables with graph.variableSize(), which is the number of
    // ACTIVE variables (FactorGraph.hpp:172-180), but index them with variable ids. After erase(0) on a 3-variable graph
    // holding a factor on {1,2}: variableSize()==2 and adjacencyList[2] is written one past the end (APSP.hpp:80-88).
    // Enabled with the environment variable C10_API_FUTILS_APSP_ERASED=1.
    inline void apspAfterErase(verif::Rng & rng) {
        const size_t n = (size_t)rng.range(3, 6);
        Graph g(n);
        Keys top{n - 2, n - 1};
        g.getFactor(top);
        g.erase(0);                                            // variable 0 has no factor; ids n-2,n-1 stay in use
        const auto al = aif::buildAdjacencyList(g);
        const size_t d = aif::APSP(g);
        emit("FactoredAPSP.APSP_after_erase", d == 1 && al.size() >= n - 1);
    }

    // ---------------------------------------------------------------------------------------------------------------
    // DynamicDecisionNetworkGraph::getId / getIds with PartialState, PartialAction (and the full-State getIds)
    inline void ddnGraph(verif::Rng & rng) {
        const size_t ns = (size_t)rng.range(1, 4), na = (size_t)rng.range(1, 3);
        std::printf("#stat api_futils_ddn_s%zu_a%zu 1\n", ns, na);
        const Keys S = space(rng, ns, 3), A = space(rng, na, 3);
        aif::DynamicDecisionNetworkGraph graph(S, A);
        for (size_t f = 0; f < ns; ++f) {
            aif::DynamicDecisionNetworkGraph::ParentSet ps;
            ps.agents = subset(rng, na, 1);
            const size_t joint = prod(ps.agents, A);
            for (size_t j = 0; j < joint; ++j) ps.features.push_back(subset(rng, ns, 1));
            ps.features.shrink_to_fit();
            graph.push(std::move(ps));
        }
        bool okIds = true, okId = true, okRange = true;
        for (int rep = 0; rep < 6; ++rep) {
            const size_t f = rng.below(ns);
            const Keys s = randomValue(rng, S), a = randomValue(rng, A);
            const auto & ps = graph.getParentSets()[f];
            // own ids
            const size_t actionId = index(ps.agents, A, a);
            const size_t parentId = index(ps.features[actionId], S, s);
            const std::pair<size_t, size_t> full = graph.getIds(f, s, a);
            okIds = okIds && full.first == parentId && full.second == actionId;
            // partial inputs: the required keys plus arbitrary extra ones
            Keys sk, ak;
            for (size_t i = 0; i < ns; ++i) if (rng.coin() || std::binary_search(ps.features[actionId].begin(), ps.features[actionId].end(), i)) sk.push_back(i);
            for (size_t i = 0; i < na; ++i) if (rng.coin() || std::binary_search(ps.agents.begin(), ps.agents.end(), i)) ak.push_back(i);
            aif::PartialState psx; aif::PartialAction pax;
            psx.first = sk; for (auto k : sk) psx.second.push_back(s[k]);
            pax.first = ak; for (auto k : ak) pax.second.push_back(a[k]);
            psx.first.shrink_to_fit(); psx.second.shrink_to_fit(); pax.first.shrink_to_fit(); pax.second.shrink_to_fit();
            const std::pair<size_t, size_t> part = graph.getIds(f, psx, pax);
            okIds = okIds && part == full;
            const size_t id = graph.getId(f, psx, pax);
            okId = okId && id == graph.getId(f, s, a) && id == graph.getId(f, parentId, actionId) && graph.getIds(f, id) == full;
            okRange = okRange && id < graph.getSize(f) && part.second < graph.getPartialSize(f) && part.first < graph.getPartialSize(f, part.second);
        }
        emit("DDNGraph.getIds_partial_equals_full", okIds);
        emit("DDNGraph.getId_partial_equals_full", okId);
        emit("DDNGraph.getId_partial_in_range", okRange);
    }

    // ---------------------------------------------------------------------------------------------------------------
    // BasisFunction plusEqualSubset / minusEqualSubset, FactoredVector::operator*=(double)
    inline void basisFunctions(verif::Rng & rng) {
        const size_t n = (size_t)rng.range(1, 4);
        const Keys sp = space(rng, n, 4);
        std::printf("#stat api_futils_bf_n%zu 1\n", n);
        for (int which = 0; which < 2; ++which) {
            const Keys big = subset(rng, n, 1);
            const Keys small = rng.coin(1, 4) ? big : subsetOf(rng, big, 1);      // rhs keys are a subset of the lhs keys
            aif::BasisFunction lhs = basisFunction(rng, sp, big);
            const aif::BasisFunction rhs = basisFunction(rng, sp, small);
            const aif::BasisFunction before = lhs;
            aif::BasisFunction & ret = which == 0 ? aif::plusEqualSubset(sp, lhs, rhs) : aif::minusEqualSubset(sp, lhs, rhs);
            bool ok = &ret == &lhs && lhs.tag == big && lhs.values.size() == before.values.size();
            Keys x(n, 0);
            if (ok) do {
                const double e = which == 0 ? eval(before, sp, x) + eval(rhs, sp, x) : eval(before, sp, x) - eval(rhs, sp, x);
                ok = ok && eval(lhs, sp, x) == e;
            } while (next(sp, x));
            emit(which == 0 ? "FactoredMatrix.plusEqualSubset_basisfunction_pointwise" : "FactoredMatrix.minusEqualSubset_basisfunction_pointwise", ok);
            if (which == 1) {
                // a += b; a -= b gives a back (all values dyadic: exact)
                aif::BasisFunction z = before;
                aif::plusEqualSubset(sp, z, rhs); aif::minusEqualSubset(sp, z, rhs);
                emit("FactoredMatrix.plus_then_minus_subset_is_identity", z.tag == before.tag && z.values == before.values);
            }
        }
        { // FactoredVector *= double
            aif::FactoredVector fv;
            const size_t nb = rng.below(4);                                        // empty allowed
            for (size_t i = 0; i < nb; ++i) fv.bases.push_back(basisFunction(rng, sp, subset(rng, n, 1)));
            fv.bases.shrink_to_fit();
            const aif::FactoredVector before = fv;
            const double v = scalar(rng);
            aif::FactoredVector & ret = (fv *= v);
            bool ok = &ret == &fv && fv.bases.size() == nb;
            for (size_t i = 0; ok && i < nb; ++i) ok = fv.bases[i].tag == before.bases[i].tag && fv.bases[i].values.size() == before.bases[i].values.size();
            Keys x(n, 0);
            if (ok) do {
                double e = 0.0;
                for (const auto & b : before.bases) e += v * eval(b, sp, x);
                ok = ok && fv.getValue(sp, x) == e;
            } while (next(sp, x));
            // the free operators must agree with the member
            const aif::FactoredVector l = before * v, r = v * before;
            for (size_t i = 0; ok && i < nb; ++i) ok = l.bases[i].values == fv.bases[i].values && r.bases[i].values == fv.bases[i].values;
            emit("FactoredVector.times_equal_scalar_pointwise", ok);
        }
    }

    // ---------------------------------------------------------------------------------------------------------------
    // BasisMatrix plusSubset / plusEqualSubset, FactoredMatrix2D * Vector, double * FactoredMatrix2D, *= double
    inline void basisMatrices(verif::Rng & rng) {
        const size_t ns = (size_t)rng.range(1, 3), na = (size_t)rng.range(1, 3);
        const Keys S = space(rng, ns, 3), A = space(rng, na, 3);
        std::printf("#stat api_futils_bm_s%zu_a%zu 1\n", ns, na);
        {
            const Keys bigS = subset(rng, ns, 1), bigA = subset(rng, na, 1);
            const Keys smallS = rng.coin(1, 3) ? bigS : subsetOf(rng, bigS, 1);
            const Keys smallA = rng.coin(1, 3) ? bigA : subsetOf(rng, bigA, 1);
            aif::BasisMatrix lhs = basisMatrix(rng, S, A, bigS, bigA);
            const aif::BasisMatrix rhs = basisMatrix(rng, S, A, smallS, smallA);
            const aif::BasisMatrix before = lhs;

            const aif::BasisMatrix sum = aif::plusSubset(S, A, lhs, rhs);          // by value: lhs must be untouched
            bool okV = lhs.values == before.values && sum.tag == bigS && sum.actionTag == bigA
                       && sum.values.rows() == before.values.rows() && sum.values.cols() == before.values.cols();
            aif::BasisMatrix & ret = aif::plusEqualSubset(S, A, lhs, rhs);
            bool okE = &ret == &lhs && lhs.tag == bigS && lhs.actionTag == bigA
                       && lhs.values.rows() == before.values.rows() && lhs.values.cols() == before.values.cols();
            Keys s(ns, 0);
            do {
                Keys a(na, 0);
                do {
                    const double e = eval(before, S, A, s, a) + eval(rhs, S, A, s, a);
                    okV = okV && eval(sum, S, A, s, a) == e;
                    okE = okE && eval(lhs, S, A, s, a) == e;
                } while (next(A, a));
            } while (next(S, s));
            emit("FactoredMatrix.plusSubset_basismatrix_pointwise", okV);
            emit("FactoredMatrix.plusEqualSubset_basismatrix_pointwise", okE);
        }
        {
            aif::FactoredMatrix2D fm;
            const size_t nb = rng.below(4);
            for (size_t i = 0; i < nb; ++i) fm.bases.push_back(basisMatrix(rng, S, A, subset(rng, ns, 1), subset(rng, na, 1)));
            fm.bases.shrink_to_fit();
            const aif::FactoredMatrix2D before = fm;
            const double v = scalar(rng);

            // weights: one per basis, optionally one more (the constant); the optional one only when there is a basis to carry it
            const bool extra = nb > 0 && rng.coin();
            AIToolbox::Vector w(nb + (extra ? 1 : 0));
            for (long i = 0; i < w.size(); ++i) w[i] = scalar(rng);

            const aif::FactoredMatrix2D byW = fm * w;                               // operator*(FactoredMatrix2D, const Vector &)
            const aif::FactoredMatrix2D byWl = w * fm;
            const aif::FactoredMatrix2D byD = v * fm;                               // operator*(double, FactoredMatrix2D)
            const aif::FactoredMatrix2D byDr = fm * v;
            bool okUntouched = fm.bases.size() == nb;
            for (size_t i = 0; okUntouched && i < nb; ++i) okUntouched = fm.bases[i].values == before.bases[i].values;
            aif::FactoredMatrix2D & ret = (fm *= v);                                // FactoredMatrix2D::operator*=(double)

            bool okW = byW.bases.size() == nb && byWl.bases.size() == nb, okD = byD.bases.size() == nb && byDr.bases.size() == nb, okM = &ret == &fm && fm.bases.size() == nb;
            for (size_t i = 0; i < nb; ++i) {
                okW = okW && byW.bases[i].tag == before.bases[i].tag && byW.bases[i].actionTag == before.bases[i].actionTag && byW.bases[i].values == byWl.bases[i].values;
                okD = okD && byD.bases[i].tag == before.bases[i].tag && byD.bases[i].actionTag == before.bases[i].actionTag && byD.bases[i].values == byDr.bases[i].values;
                okM = okM && fm.bases[i].tag == before.bases[i].tag && fm.bases[i].actionTag == before.bases[i].actionTag;
            }
            Keys s(ns, 0);
            if (okW && okD && okM) do {
                Keys a(na, 0);
                do {
                    double eD = 0.0, eW = 0.0;
                    for (size_t i = 0; i < nb; ++i) {
                        const double b = eval(before.bases[i], S, A, s, a);
                        eD += v * b;
                        eW += w[i] * b + (extra ? w[nb] / (double)nb : 0.0);
                    }
                    okD = okD && byD.getValue(S, A, s, a) == eD;
                    okM = okM && fm.getValue(S, A, s, a) == eD;
                    okW = okW && close(byW.getValue(S, A, s, a), eW)
                              // documented equivalence: weights applied lazily by getValue == weights baked in by operator*
                              && close(byW.getValue(S, A, s, a), before.getValue(S, A, s, a, w));
                } while (next(A, a));
            } while (next(S, s));
            emit("FactoredMatrix2D.times_vector_pointwise", okW);
            emit("FactoredMatrix2D.scalar_times_pointwise", okD);
            emit("FactoredMatrix2D.times_equal_scalar_pointwise", okM);
            emit("FactoredMatrix2D.free_operators_leave_argument_untouched", okUntouched);
        }
    }

    // ---------------------------------------------------------------------------------------------------------------
    // GenericVariableElimination<double>::operator()(V, graph, global) with own callback structures that follow the
    // contract documented at GenericVariableElimination.hpp:12-67: max over all joint values of the sum of the rules.
    struct MaxSumGlobal {
        double newFactor = 0.0;                       // required member
        double cur = 0.0, result = 0.0;
        size_t removals = 0, finals = 0;
        void initNewFactor() { newFactor = -std::numeric_limits<double>::infinity(); }
        void beginCrossSum(size_t) { cur = 0.0; }
        void crossSum(const double & f) { cur += f; }
        void endCrossSum() { newFactor = std::max(newFactor, cur); }
        void beginRemoval(const aif::GenericVariableElimination<double>::Graph &) { ++removals; }   // optional, trailing params dropped
        void makeResult(std::vector<double> && ff) { finals = ff.size(); result = 0.0; for (auto f : ff) result += f; }
    };
    struct MaxSumMergeGlobal : MaxSumGlobal {
        void mergeFactors(double & lhs, double && rhs) { lhs += rhs; }   // requires sorted rules in the input graph
    };
    // note: member detection in global_interface uses &Z::name, which finds inherited members too; to keep the two
    // variants honest the merging one is a distinct most-derived type with its own mergeFactors.

    template <class Global>
    inline bool runGve(verif::Rng & rng, bool sortedUnique) {
        using GVE = aif::GenericVariableElimination<double>;
        const size_t n = (size_t)rng.range(1, 5);
        const Keys V = space(rng, n, 3);
        GVE::Graph graph(n);
        const size_t nf = rng.below(5);
        std::vector<std::pair<Keys, std::vector<std::pair<size_t, double>>>> mine;   // own copy of the rules
        for (size_t f = 0; f < nf; ++f) {
            Keys vars = subset(rng, n, 1);
            if (vars.size() > 3) vars.resize(3);
            auto it = graph.getFactor(vars);
            auto & rules = it->getData();
            const size_t sz = prod(vars, V);
            for (size_t j = 0; j < sz; ++j) {
                if (rng.coin(1, 3)) continue;                                        // sparse: missing rule contributes nothing
                const double val = (double)rng.range(-32, 32) / 4.0;
                if (sortedUnique) {
                    auto pos = std::lower_bound(rules.begin(), rules.end(), j, [](const GVE::Rule & r, size_t k) { return r.first < k; });
                    if (pos != rules.end() && pos->first == j) pos->second += val; else rules.emplace(pos, j, val);
                } else
                    rules.emplace_back(j, val);                                      // duplicates of an index simply add up
            }
        }
        for (auto it = graph.cbegin(); it != graph.cend(); ++it) {
            std::vector<std::pair<size_t, double>> r(it->getData().begin(), it->getData().end());
            mine.emplace_back(it->getVariables(), std::move(r));
        }
        // brute force
        double best = -std::numeric_limits<double>::infinity();
        Keys x(n, 0);
        do {
            double sum = 0.0;
            for (const auto & [vars, rules] : mine) {
                const size_t id = index(vars, V, x);
                for (const auto & [j, v] : rules) if (j == id) sum += v;
            }
            best = std::max(best, sum);
        } while (next(V, x));

        Global global;
        GVE gve;
        gve(V, graph, global);
        return global.result == best && graph.variableSize() == 0 && global.removals == n && global.finals >= 1;
    }

    inline void gve(verif::Rng & rng) {
        std::printf("#stat api_futils_gve 1\n");
        emit("GenericVariableElimination.max_sum_equals_brute_force", runGve<MaxSumGlobal>(rng, false));
        emit("GenericVariableElimination.max_sum_with_mergeFactors_equals_brute_force", runGve<MaxSumMergeGlobal>(rng, true));
    }
} // namespace fu

inline void api_futils(verif::Rng & rng, long idx) {
    static const bool withApspErase = std::getenv("C10_API_FUTILS_APSP_ERASED") != nullptr;
    const long N = withApspErase ? 7 : 6;
    switch (idx % N) {
        case 0: fu::core(rng); break;
        case 1: fu::factorGraph(rng); break;
        case 2: fu::ddnGraph(rng); break;
        case 3: fu::basisFunctions(rng); break;
        case 4: fu::basisMatrices(rng); break;
        case 5: fu::gve(rng); break;
        default: fu::apspAfterErase(rng); break;
    }
}
} // namespace c10api
