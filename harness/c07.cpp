// C07 correspondence harness: experience classes and the learned models built on them.
// Every line is one whole history of one table of pairs with the implementation's observations
// inline after each call (protocol: see lean/Driver/C07.lean).
//
// Flat classes     MDP::Experience / MDP::SparseExperience / a getter-only user experience
//                  × MaximumLikelihoodModel / SparseMaximumLikelihoodModel           pair = s*A + a
// Bandit::Experience, Factored::Bandit::Experience                                    pair = arm / (basis, local joint action)
// CooperativeExperience × CooperativeMaximumLikelihoodModel                           pair = (feature i, parent row j)
// ThompsonModel<Experience>, CooperativeThompsonModel                                 validity of the exposed rows only
#include "common/verif.hpp"
#include <AIToolbox/MDP/Experience.hpp>
#include <AIToolbox/MDP/SparseExperience.hpp>
#include <AIToolbox/MDP/MaximumLikelihoodModel.hpp>
#include <AIToolbox/MDP/SparseMaximumLikelihoodModel.hpp>
#include <AIToolbox/MDP/ThompsonModel.hpp>
#include <AIToolbox/Bandit/Experience.hpp>
#include <AIToolbox/Factored/Bandit/Experience.hpp>
#include <AIToolbox/Factored/MDP/CooperativeExperience.hpp>
#include <AIToolbox/Factored/MDP/CooperativeMaximumLikelihoodModel.hpp>
#include <AIToolbox/Factored/MDP/CooperativeThompsonModel.hpp>
#include <AIToolbox/Factored/Utils/Core.hpp>
#include <AIToolbox/Seeder.hpp>
#include <random>
#include <map>

using namespace verif;
namespace M = AIToolbox::MDP;
namespace F = AIToolbox::Factored;
namespace FM = AIToolbox::Factored::MDP;

// ---------------------------------------------------------------------------------------------
// A user-defined experience exposing only the scalar getters (satisfies IsExperience, not
// IsExperienceEigen): drives the element-by-element branches of the model templates.
struct GenericExperience {
    M::Experience e;
    GenericExperience(size_t s, size_t a) : e(s, a) {}
    void record(size_t s, size_t a, size_t s1, double r) { e.record(s, a, s1, r); }
    void reset() { e.reset(); }
    unsigned long getTimesteps() const { return e.getTimesteps(); }
    unsigned long getVisits(size_t s, size_t a, size_t s1) const { return e.getVisits(s, a, s1); }
    unsigned long getVisitsSum(size_t s, size_t a) const { return e.getVisitsSum(s, a); }
    double getReward(size_t s, size_t a) const { return e.getReward(s, a); }
    double getM2(size_t s, size_t a) const { return e.getM2(s, a); }
    size_t getS() const { return e.getS(); }
    size_t getA() const { return e.getA(); }
};
static_assert(M::IsExperience<GenericExperience>);
static_assert(!M::IsExperienceEigen<GenericExperience>);

// the value uninitialised heap storage holds in this process (ASAN malloc_fill_byte poison)
static double heapJunk() {
    volatile double * p = (volatile double *)std::malloc(4 * sizeof(double));
    double v = p[2];
    std::free((void *)p);
    if (std::isnan(v) || std::isinf(v)) v = 12345.0;
    return v;
}

// ---------------------------------------------------------------------------------------------
// token buffer for one history line (header is written last: it needs the op count)
struct Hist {
    std::string variant; size_t np, w, A; bool hasModel;
    std::vector<std::string> toks; size_t nops = 0;
    Hist(std::string v, size_t np_, size_t w_, size_t A_, bool hm) : variant(std::move(v)), np(np_), w(w_), A(A_), hasModel(hm) {}
    Hist & t(const std::string & s) { toks.push_back(s); return *this; }
    Hist & n(size_t x) { toks.push_back(std::to_string(x)); return *this; }
    Hist & d(double x) { toks.push_back(X(x)); return *this; }
    void op() { ++nops; }
    void emit(double junk) {
        Line l; l << "C07" << "hist" << variant << np << w << A << hasModel << junk << nops;
        for (auto & s : toks) l << s;
        l.emit();
    }
};

// rewards: dyadic stream (multiples of 1/4 in [-8,8]) or the "ugly" stream
static double drawReward(Rng & rng, int mode) {
    if (mode == 0) return (double)rng.range(-32, 32) / 4.0;
    if (mode == 1) { static const double u[] = {0.1, 1.0 / 3.0, 1e-7, -2.5e-7, 1.0 + 1e-7, 1.0, 0.3, -0.7, 1e3 + 0.1, 0.0}; return u[rng.below(10)]; }
    if (mode == 3) { static const double u[] = {0.1, 1.0 / 3.0, 2.7, -1e-3, 1.1, 1.0, 0.3, -0.7, 1e3 + 0.1, 0.0}; return u[rng.below(10)]; }  // ugly, no tolerance straddlers
    if (mode == 4) return 0.5;
    return 1.0;   // constant stream: M2 must stay 0
}

// ---------------------------------------------------------------------------------------------
// flat classes
struct FlatOpts {
    size_t S, A; long nops;
    int rewardMode = 0;
    bool ctorFirst = true;      // model constructed before any data
    bool ctorSync = false;
    long ctorAfter = 0;         // else: after this many records
    bool allowIncAfterReset = false;   // scenario of finding C07-inc-after-reset (kept to designated cases)
    bool allowCtorJunk = false;        // dense ctor(sync=true) with unvisited pairs and S > 1 (finding C07-ctor-uninit)
    bool violatePre = false;           // stream violating the incremental precondition (model/impl diff only)
    bool rowIsJunkOnCtorSync = false;  // this model class leaves unvisited rows uninitialised (dense)
    int resetPermille = 15;
    size_t hot = 0;                    // if > 0: concentrate on this many pairs
};

template <class E, class Mod>
struct FlatRun {
    FlatOpts o; Rng & rng; Hist h;
    E exp; std::unique_ptr<Mod> mod;
    std::vector<long> pend; std::vector<size_t> lastS1; std::vector<char> rowDefault; std::vector<unsigned long> N;
    FlatRun(const FlatOpts & oo, Rng & r, const std::string & variant)
        : o(oo), rng(r), h(variant, oo.S * oo.A, oo.S, oo.A, true), exp(oo.S, oo.A),
          pend(oo.S * oo.A, 0), lastS1(oo.S * oo.A, 0), rowDefault(oo.S * oo.A, 1), N(oo.S * oo.A, 0) {}

    void obsExp(size_t s, size_t a) {
        for (size_t s1 = 0; s1 < o.S; ++s1) h.n(exp.getVisits(s, a, s1));
        h.n(exp.getVisitsSum(s, a)).d(exp.getReward(s, a)).d(exp.getM2(s, a));
    }
    void obsMod(size_t s, size_t a) {
        for (size_t s1 = 0; s1 < o.S; ++s1) h.d(mod->getTransitionProbability(s, a, s1));
        h.d(mod->getExpectedReward(s, a, 0));
    }
    void obsModMatrix(size_t s, size_t a) {   // same data through the table accessors
        for (size_t s1 = 0; s1 < o.S; ++s1) h.d(mod->getTransitionFunction(a).coeff(s, s1));
        h.d(mod->getRewardFunction().coeff(s, a));
    }
    void allMod(bool matrix = false) { for (size_t s = 0; s < o.S; ++s) for (size_t a = 0; a < o.A; ++a) matrix ? obsModMatrix(s, a) : obsMod(s, a); }
    void allExp() { for (size_t s = 0; s < o.S; ++s) for (size_t a = 0; a < o.A; ++a) obsExp(s, a); h.n(exp.getTimesteps()); }
    // the same data through the table accessors (getVisitsTable() / getVisitsTable(a) / getVisitsSumTable / getRewardMatrix / getM2Matrix)
    void allExpTables() {
        if constexpr (requires { exp.getVisitsSumTable(); exp.getVisitsTable(); }) {
            for (size_t s = 0; s < o.S; ++s) for (size_t a = 0; a < o.A; ++a) {
                for (size_t s1 = 0; s1 < o.S; ++s1) h.n((s1 % 2) ? exp.getVisitsTable()[a].coeff(s, s1) : exp.getVisitsTable(a).coeff(s, s1));
                h.n(exp.getVisitsSumTable().coeff(s, a)).d(exp.getRewardMatrix().coeff(s, a)).d(exp.getM2Matrix().coeff(s, a));
            }
            h.n(exp.getTimesteps());
            std::printf("#stat final_dump_through_table_accessors 1\n");
        } else allExp();
    }

    void doRecord(size_t s, size_t a, size_t s1, double r) {
        exp.record(s, a, s1, r);
        size_t p = s * o.A + a; ++pend[p]; lastS1[p] = s1; ++N[p];
        h.t("r").n(p).n(s1).d(r); obsExp(s, a); h.n(exp.getTimesteps()); h.op();
    }
    void doCtor(bool b) {
        mod.reset(new Mod(exp, 0.9, b));
        for (size_t p = 0; p < N.size(); ++p) {
            if (b) { pend[p] = 0; rowDefault[p] = (N[p] == 0) && !(o.rowIsJunkOnCtorSync && o.S > 1); }
            else { pend[p] = (long)N[p]; rowDefault[p] = 1; }
        }
        h.t("c").n(b); allMod(); h.op();
    }
    void doSyncAll() {
        mod->sync();
        for (size_t p = 0; p < N.size(); ++p) { pend[p] = 0; if (N[p]) rowDefault[p] = 0; }
        h.t("S"); allMod(); h.op();
    }
    void doSync(size_t s, size_t a) {
        mod->sync(s, a);
        size_t p = s * o.A + a; pend[p] = 0; if (N[p]) rowDefault[p] = 0;
        h.t("s").n(p); obsMod(s, a); h.op();
    }
    void doInc(size_t s, size_t a, size_t s1) {
        mod->sync(s, a, s1);
        size_t p = s * o.A + a; pend[p] = 0; if (N[p]) rowDefault[p] = 0;
        h.t("i").n(p).n(s1); obsMod(s, a); h.op();
    }
    void doReset() {
        exp.reset();
        for (auto & n : N) n = 0;
        h.t("R"); allExp(); h.op();
    }
    bool incAllowed(size_t p) const {
        if (!mod) return false;
        if (o.violatePre) return true;
        if (pend[p] != 1) return false;
        if (N[p] == 1 && !rowDefault[p] && !o.allowIncAfterReset) return false;
        return true;
    }
    bool ctorAllowed(bool b) const {
        if (!b || !o.rowIsJunkOnCtorSync || o.S == 1 || o.allowCtorJunk) return true;
        for (auto n : N) if (n == 0) return false;
        return true;
    }
    size_t pickPair() {
        size_t np = o.S * o.A;
        if (o.hot && rng.coin(4, 5)) return rng.below(std::min(o.hot, np));
        return rng.below(np);
    }
    void finish(double junk) {
        h.t("E"); allExpTables(); if (mod) allMod(true); h.op();
        h.hasModel = (bool)mod;
        h.emit(junk);
    }
    void run(double junk) {
        long records = 0;
        if (o.ctorFirst && ctorAllowed(o.ctorSync)) doCtor(o.ctorSync);
        for (long k = 0; k < o.nops; ++k) {
            if (!mod && !o.ctorFirst && records >= o.ctorAfter && ctorAllowed(o.ctorSync)) { doCtor(o.ctorSync); continue; }
            unsigned roll = (unsigned)rng.below(1000);
            if (!mod || roll < 560) {
                size_t p = pickPair(); size_t s = p / o.A, a = p % o.A;
                size_t s1 = rng.coin(2, 3) ? rng.below(std::min<size_t>(2, o.S)) : rng.below(o.S);
                doRecord(s, a, s1, drawReward(rng, o.rewardMode)); ++records;
                if (mod && rng.coin(3, 5) && incAllowed(p)) { doInc(s, a, o.violatePre && rng.coin(1, 4) ? rng.below(o.S) : s1); ++k; }
            } else if (roll < 760) {
                // incremental sync of some eligible pair
                std::vector<size_t> el;
                for (size_t p = 0; p < N.size(); ++p) if (incAllowed(p)) el.push_back(p);
                if (el.empty()) continue;
                size_t p = rng.pick(el);
                doInc(p / o.A, p % o.A, o.violatePre && rng.coin(1, 4) ? rng.below(o.S) : lastS1[p]);
            } else if (roll < 900) {
                size_t p = pickPair(); doSync(p / o.A, p % o.A);
            } else if (roll < 960) {
                doSyncAll();
            } else if (roll < 960 + (unsigned)o.resetPermille) {
                doReset();
            } else if (roll < 985) {
                bool b = rng.coin();
                if (ctorAllowed(b)) doCtor(b);
            } else {
                // inc sync on a pair with no data / already synced is outside the precondition unless pend == 1
                size_t p = pickPair(); if (incAllowed(p)) doInc(p / o.A, p % o.A, lastS1[p]);
            }
        }
        finish(junk);
    }
};

// scripted flat history (witness cases): ops as a small string program
//   r s a s1 rew | s s a | i s a s1 | S | R | c b
template <class E, class Mod>
static void scripted(const std::string & variant, size_t S, size_t A, const std::vector<std::vector<double>> & prog, double junk, bool junkClass) {
    FlatOpts o; o.S = S; o.A = A; o.nops = 0; o.rowIsJunkOnCtorSync = junkClass;
    Rng dummy(1);
    FlatRun<E, Mod> fr(o, dummy, variant);
    for (auto & c : prog) {
        switch ((int)c[0]) {
            case 0: fr.doRecord((size_t)c[1], (size_t)c[2], (size_t)c[3], c[4]); break;
            case 1: fr.doSync((size_t)c[1], (size_t)c[2]); break;
            case 2: fr.doInc((size_t)c[1], (size_t)c[2], (size_t)c[3]); break;
            case 3: fr.doSyncAll(); break;
            case 4: fr.doReset(); break;
            case 5: fr.doCtor(c[1] != 0); break;
        }
    }
    fr.finish(junk);
}
enum { REC = 0, SYNC = 1, INC = 2, SYNCALL = 3, RESET = 4, CTOR = 5 };

// ---------------------------------------------------------------------------------------------
// Bandit::Experience
static void banditCase(Rng & rng, long nops, int rewardMode, double junk) {
    size_t A = (size_t)rng.range(1, 5);
    AIToolbox::Bandit::Experience exp(A);
    Hist h("bandit", A, 0, 0, false);
    auto dump = [&]() { for (size_t a = 0; a < A; ++a) h.n(exp.getVisitsTable()[a]).d(exp.getRewardMatrix()[a]).d(exp.getM2Matrix()[a]); h.n(exp.getTimesteps()); };
    for (long k = 0; k < nops; ++k) {
        if (rng.coin(1, 40)) { exp.reset(); h.t("R"); dump(); h.op(); continue; }
        size_t a = rng.below(A); double r = drawReward(rng, rewardMode);
        exp.record(a, r);
        h.t("r").n(a).n(0).d(r).n(exp.getVisitsTable()[a]).d(exp.getRewardMatrix()[a]).d(exp.getM2Matrix()[a]).n(exp.getTimesteps()); h.op();
    }
    h.t("E"); dump(); h.op();
    h.emit(junk);
}

// generic token buffer for the keyed (factored-API) lines: header tokens, then ops, op count filled in at the end
struct KLine {
    std::vector<std::string> head, toks; size_t nops = 0;
    KLine & t(const std::string & s) { toks.push_back(s); return *this; }
    KLine & n(size_t x) { toks.push_back(std::to_string(x)); return *this; }
    KLine & d(double x) { toks.push_back(X(x)); return *this; }
    template <class V> KLine & v(const V & xs) { for (auto x : xs) n((size_t)x); return *this; }
    KLine & hn(size_t x) { head.push_back(std::to_string(x)); return *this; }
    KLine & hd(double x) { head.push_back(X(x)); return *this; }
    template <class V> KLine & hlist(const V & xs) { hn(xs.size()); for (auto x : xs) hn((size_t)x); return *this; }
    void op() { ++nops; }
    void emit(const char * kind) {
        Line l; l << "C07" << kind;
        for (auto & s : head) l << s;
        l << nops;
        for (auto & s : toks) l << s;
        l.emit();
    }
};

// a sorted random non-empty subset of {0..n-1} with at most `maxk` elements; `nonPrefix`: avoid {0..k-1} when possible
static F::PartialKeys randomTag(Rng & rng, size_t n, size_t maxk, bool nonPrefix) {
    for (int attempt = 0; attempt < 8; ++attempt) {
        F::PartialKeys t;
        for (size_t k = 0; k < n; ++k) if (rng.coin() && t.size() < maxk) t.push_back(k);
        if (t.empty()) t.push_back(rng.below(n));
        bool prefix = true; for (size_t k = 0; k < t.size(); ++k) if (t[k] != k) prefix = false;
        if (!nonPrefix || !prefix || n == 1 || attempt == 7) return t;
    }
    return {0};
}

// Factored::Bandit::Experience at the level of its API: record(a, rews) with full joint actions; the driver resolves the
// entry with its own toIndexPartial and checks the statistics against the records with the same local joint action
static void fbanditCase(Rng & rng, long nops, int rewardMode, double, bool witness = false) {
    size_t nAgents = (size_t)rng.range(1, 4);
    F::Action A(nAgents); for (auto & x : A) x = (size_t)rng.range(1, 4);
    size_t nb = (size_t)rng.range(1, 3);
    std::vector<F::PartialKeys> deps(nb);
    for (auto & d : deps) d = randomTag(rng, nAgents, 3, rng.coin(2, 3));
    if (witness) { nAgents = 3; A = {2, 4, 3}; nb = 3; deps = {{0, 2}, {1}, {0, 1, 2}}; }   // non-uniform sizes, a non-prefix tag, a three-key tag
    F::Bandit::Experience exp(A, deps);
    KLine h; h.hlist(A); h.hn(nb); for (auto & d : deps) h.hlist(d);
    h.hn(exp.getRewardMatrix().bases.size()); for (auto & b : exp.getRewardMatrix().bases) h.hlist(b.tag);        // what the object reports back
    h.hn(exp.getDependencies().size()); for (auto & d : exp.getDependencies()) h.hlist(d);
    h.hlist(exp.getA());
    for (size_t i = 0; i < nb; ++i) h.hn(exp.getVisitsTable()[i].size());
    bool nonUniform = false; for (auto x : A) if (x != A[0]) nonUniform = true;
    auto dump = [&]() {
        for (size_t i = 0; i < nb; ++i) for (size_t j = 0; j < exp.getVisitsTable()[i].size(); ++j)
            h.n(exp.getVisitsTable()[i][j]).d(exp.getRewardMatrix().bases[i].values[j]).d(exp.getM2Matrix()[i][j]);
        h.n(exp.getTimesteps());
    };
    std::vector<F::Action> pool(3, F::Action(nAgents));
    for (auto & a : pool) for (size_t q = 0; q < nAgents; ++q) a[q] = rng.below(A[q]);
    for (long k = 0; k < nops; ++k) {
        if (rng.coin(1, 40)) { exp.reset(); h.t("R"); dump(); h.op(); continue; }
        F::Action a(nAgents);
        if (rng.coin()) a = rng.pick(pool); else for (size_t q = 0; q < nAgents; ++q) a[q] = rng.below(A[q]);
        F::Rewards rews(nb); for (size_t i = 0; i < nb; ++i) rews[i] = drawReward(rng, rewardMode);
        const auto & ids = exp.record(a, rews);
        h.t("r").v(a); for (size_t i = 0; i < nb; ++i) h.d(rews[i]);
        h.v(ids);
        for (size_t i = 0; i < nb; ++i) { size_t j = ids[i]; h.n(exp.getVisitsTable()[i][j]).d(exp.getRewardMatrix().bases[i].values[j]).d(exp.getM2Matrix()[i][j]); }
        h.n(exp.getTimesteps()); h.op();
    }
    h.t("E"); dump(); h.op();
    h.emit("fbhist");
    if (nonUniform) std::printf("#stat fbandit_nonuniform_A 1\n");
    for (auto & d : deps) { bool prefix = true; for (size_t k = 0; k < d.size(); ++k) if (d[k] != k) prefix = false; if (!prefix) { std::printf("#stat fbandit_nonprefix_tag 1\n"); break; } }
}

// ---------------------------------------------------------------------------------------------
// CooperativeExperience × CooperativeMaximumLikelihoodModel (+ CooperativeThompsonModel) at the level of their API
static F::DDNGraph randomGraph(Rng & rng, bool rich = true) {
    size_t nf = (size_t)rng.range(1, rich ? 4 : 3), na = (size_t)rng.range(1, rich ? 3 : 2);
    F::State S(nf); for (auto & x : S) x = (size_t)rng.range(rng.coin(1, 8) ? 1 : 2, rich ? 4 : 3);
    F::Action A(na); for (auto & x : A) x = (size_t)rng.range(1, rich ? 4 : 2);
    // make S[k] != A[k] on the common positions most of the time (an index computed with the wrong space then differs)
    if (rich && rng.coin(3, 4)) for (size_t k = 0; k < std::min(nf, na); ++k) if (S[k] == A[k]) A[k] = (A[k] % 4) + 1;
    F::DDNGraph g(S, A);
    for (size_t i = 0; i < nf; ++i) {
        F::DDNGraph::ParentSet ps;
        if (rich && na >= 2 && rng.coin(2, 3)) { ps.agents = randomTag(rng, na, 3, false); if (ps.agents.size() < 2) { ps.agents.clear(); size_t a0 = rng.below(na - 1); ps.agents = {a0, a0 + 1 + rng.below(na - a0 - 1)}; } }
        else ps.agents = randomTag(rng, na, 2, false);
        size_t nj = F::factorSpacePartial(ps.agents, A);
        size_t budget = 64;
        for (size_t j = 0; j < nj; ++j) {
            size_t left = nj - j;   // every remaining set needs at least... keep each under budget / left
            F::PartialKeys fk = randomTag(rng, nf, rich ? 3 : 2, rich && rng.coin(2, 3));
            while (fk.size() > 1 && F::factorSpacePartial(fk, S) > std::max<size_t>(4, budget / left)) fk.erase(fk.begin() + (long)rng.below(fk.size()));
            budget -= std::min(budget, F::factorSpacePartial(fk, S));
            ps.features.push_back(fk);
        }
        g.push(std::move(ps));
    }
    return g;
}

static void graphHeader(KLine & h, const F::DDNGraph & g) {
    h.hlist(g.getS()); h.hlist(g.getA());
    for (auto & ps : g.getParentSets()) { h.hlist(ps.agents); h.hn(ps.features.size()); for (auto & f : ps.features) h.hlist(f); }
    for (size_t i = 0; i < g.getS().size(); ++i) h.hn(g.getSize(i));
}

static void graphStats(const F::DDNGraph & g) {
    const auto & S = g.getS(); const auto & A = g.getA();
    bool multi = false, nonprefix = false, sneA = false, nonuni = false;
    for (auto & ps : g.getParentSets()) {
        if (ps.agents.size() >= 2) multi = true;
        for (auto k : ps.agents) if (k < S.size() && S[k] != A[k]) sneA = true;
        for (auto & f : ps.features) for (size_t k = 0; k < f.size(); ++k) if (f[k] != k) nonprefix = true;
    }
    for (auto x : S) if (x != S[0]) nonuni = true;
    for (auto x : A) if (x != A[0]) nonuni = true;
    if (multi) std::printf("#stat coop_multiagent_parents 1\n");
    if (nonprefix) std::printf("#stat coop_nonprefix_parent_features 1\n");
    if (sneA) std::printf("#stat coop_S_ne_A_on_parent_agents 1\n");
    if (nonuni) std::printf("#stat coop_nonuniform_sizes 1\n");
    if (multi && sneA) std::printf("#stat coop_multiagent_and_S_ne_A 1\n");
}

static void thompsonLineCoop(const FM::CooperativeExperience & exp, const FM::CooperativeThompsonModel & tm, size_t i) {
    const auto & S = exp.getS();
    size_t rows = exp.getGraph().getSize(i);
    Line l; l << "C07" << "thompson" << "CooperativeThompsonModel" << S[i] << rows;
    for (size_t j = 0; j < rows; ++j) {
        for (size_t k = 0; k < S[i]; ++k) l << (size_t)exp.getVisitsTable()[i](j, k);
        l << (size_t)exp.getVisitsTable()[i](j, S[i]) << exp.getRewardMatrix()[i][j];
        for (size_t k = 0; k < S[i]; ++k) l << tm.getTransitionFunction().transitions[i](j, k);
        l << tm.getRewardFunction()[i][j];
    }
    l.emit();
}

// scripted coop op: {kind, s.., a.., s1.., rews..}  (used by the fixed witness cases)
struct CoopRun {
    F::DDNGraph g; FM::CooperativeExperience exp; std::unique_ptr<FM::CooperativeMaximumLikelihoodModel> mod; KLine h; size_t nf, na;
    CoopRun(F::DDNGraph gg, double junk) : g(std::move(gg)), exp(g), nf(g.getS().size()), na(g.getA().size()) { graphHeader(h, g); h.hn(0); h.hd(junk); }
    void obsExp(size_t i, size_t j) {
        const auto & S = g.getS();
        for (size_t k = 0; k < S[i]; ++k) h.n(exp.getVisitsTable()[i](j, k));
        h.n(exp.getVisitsTable()[i](j, S[i])).d(exp.getRewardMatrix()[i][j]).d(exp.getM2Matrix()[i][j]);
    }
    void obsMod(size_t i, size_t j) {
        const auto & S = g.getS();
        for (size_t k = 0; k < S[i]; ++k) h.d(mod->getTransitionFunction().transitions[i](j, k));
        h.d(mod->getRewardFunction()[i][j]);
    }
    void allMod() { for (size_t i = 0; i < nf; ++i) for (size_t j = 0; j < g.getSize(i); ++j) obsMod(i, j); }
    void allExp() { for (size_t i = 0; i < nf; ++i) for (size_t j = 0; j < g.getSize(i); ++j) obsExp(i, j); h.n(exp.getTimesteps()); }
    FM::CooperativeExperience::Indeces record(const F::State & s, const F::Action & a, const F::State & s1, const F::Rewards & rews) {
        const auto & ids = exp.record(s, a, s1, rews);
        h.t("r").v(s).v(a).v(s1); for (size_t i = 0; i < nf; ++i) h.d(rews[i]);
        h.v(ids);
        for (size_t i = 0; i < nf; ++i) obsExp(i, ids[i]);
        h.n(exp.getTimesteps()); h.op();
        return ids;
    }
    void syncSA(const F::State & s, const F::Action & a) {
        mod->sync(s, a);
        h.t("s").v(s).v(a);
        for (size_t i = 0; i < nf; ++i) { size_t j = g.getId(i, s, a); h.n(j); obsMod(i, j); }
        h.op();
    }
    void syncIdx(const F::State & s, const F::Action & a, const FM::CooperativeExperience::Indeces & ids) {
        mod->sync(ids);
        h.t("x").v(s).v(a).v(ids);
        for (size_t i = 0; i < nf; ++i) obsMod(i, ids[i]);
        h.op();
    }
    void syncAll() { mod->sync(); h.t("S"); allMod(); h.op(); }
    void ctor(bool b) { mod.reset(new FM::CooperativeMaximumLikelihoodModel(exp, 0.9, b)); h.t("c").n(b); allMod(); h.op(); }
    void reset() { exp.reset(); h.t("R"); allExp(); h.op(); }
    void query(const F::State & s, const F::Action & a, const F::State & s1) {
        h.t("q").v(s).v(a).v(s1).d(mod->getTransitionProbability(s, a, s1)).d(mod->getExpectedReward(s, a, s1));
        auto rv = mod->getExpectedRewards(s, a, s1);
        for (size_t i = 0; i < nf; ++i) h.d(rv[i]);
        h.op();
    }
    void finish() {
        h.t("E"); allExp(); h.n(mod ? 1 : 0); if (mod) allMod(); h.op(); h.emit("coophist");
        std::map<std::string, long> cnt;
        for (auto & t : h.toks) if (t == "r" || t == "s" || t == "x" || t == "S" || t == "c" || t == "R" || t == "q") ++cnt[t];
        static const std::map<std::string, const char *> nm = {{"r", "record"}, {"s", "syncSA"}, {"x", "syncIndeces"}, {"S", "syncAll"}, {"c", "ctor"}, {"R", "reset"}, {"q", "query"}};
        for (auto & [k, v] : cnt) std::printf("#stat coop_op_%s %ld\n", nm.at(k), v);
    }
};


// what a cooperative learned model ANSWERS against what it EXPOSES: its tables, then queries getTransitionProbability /
// getExpectedReward(s); when the joint next-state space is small every s1 is queried (the driver also checks that they sum to one)
template <class Mod>
static void coopQueryLine(const char * comp, const F::DDNGraph & g, const Mod & m, Rng & rng, int nq) {
    const auto & S = g.getS(); const auto & A = g.getA();
    size_t nf = S.size(), na = A.size();
    KLine h; h.head.push_back(comp); graphHeader(h, g);
    for (size_t i = 0; i < nf; ++i) for (size_t j = 0; j < g.getSize(i); ++j) {
        for (size_t k = 0; k < S[i]; ++k) h.hd(m.getTransitionFunction().transitions[i](j, k));
        h.hd(m.getRewardFunction()[i][j]);
    }
    size_t space = 1; for (auto x : S) space *= x;
    bool full = space <= 96;
    for (int q = 0; q < nq; ++q) {
        F::State s(nf); F::Action a(na);
        for (size_t k = 0; k < nf; ++k) s[k] = rng.below(S[k]);
        for (size_t k = 0; k < na; ++k) a[k] = rng.below(A[k]);
        F::State z(nf, 0);
        h.t("q").v(s).v(a).d(m.getExpectedReward(s, a, z));
        auto rv = m.getExpectedRewards(s, a, z); for (size_t i = 0; i < nf; ++i) h.d(rv[i]);
        size_t K = full ? space : 6;
        h.n(full ? 1 : 0).n(K);
        for (size_t c = 0; c < K; ++c) {
            F::State s1(nf);
            if (full) { size_t id = c; for (size_t k = 0; k < nf; ++k) { s1[k] = id % S[k]; id /= S[k]; } }
            else for (size_t k = 0; k < nf; ++k) s1[k] = rng.below(S[k]);
            h.v(s1).d(m.getTransitionProbability(s, a, s1));
        }
        h.op();
    }
    h.emit("coopq");
    std::printf("#stat coop_query_line_%s 1\n", full ? "full_joint" : "sampled_joint");
}

static void coopCase(Rng & rng, long nops, int rewardMode, double junk, bool withThompson, bool rich = true) {
    CoopRun cr(randomGraph(rng, rich), junk);
    const auto & S = cr.g.getS(); const auto & A = cr.g.getA();
    size_t nf = cr.nf, na = cr.na;
    graphStats(cr.g);
    // small pools of joint states / actions so that contexts collect several visits, plus fully random ones
    std::vector<F::State> spool((size_t)rng.range(2, 4), F::State(nf)); std::vector<F::Action> apool((size_t)rng.range(1, 3), F::Action(na));
    for (auto & s : spool) for (size_t q = 0; q < nf; ++q) s[q] = rng.below(S[q]);
    for (auto & a : apool) for (size_t q = 0; q < na; ++q) a[q] = rng.below(A[q]);
    auto drawS = [&]() { F::State s(nf); if (rng.coin(3, 4)) s = rng.pick(spool); else for (size_t q = 0; q < nf; ++q) s[q] = rng.below(S[q]); return s; };
    auto drawA = [&]() { F::Action a(na); if (rng.coin(2, 3)) a = rng.pick(apool); else for (size_t q = 0; q < na; ++q) a[q] = rng.below(A[q]); return a; };
    auto drawS1 = [&]() { F::State s(nf); for (size_t q = 0; q < nf; ++q) s[q] = rng.coin() ? rng.below(std::min<size_t>(2, S[q])) : rng.below(S[q]); return s; };
    bool first = rng.coin(); bool flag = rng.coin();
    long after = rng.range(1, 12), records = 0;
    if (first) cr.ctor(flag);
    F::State ls; F::Action la; FM::CooperativeExperience::Indeces lids; bool haveLast = false;
    for (long k = 0; k < nops; ++k) {
        if (!cr.mod && records >= after) { cr.ctor(flag); continue; }
        unsigned roll = (unsigned)rng.below(1000);
        if (!cr.mod || roll < 600) {
            F::State s = drawS(), s1 = drawS1(); F::Action a = drawA();
            F::Rewards rews(nf); for (size_t i = 0; i < nf; ++i) rews[i] = drawReward(rng, rewardMode);
            lids = cr.record(s, a, s1, rews); ++records;
            ls = s; la = a; haveLast = true;
            if (cr.mod && rng.coin(1, 3)) { if (rng.coin()) cr.syncSA(s, a); else cr.syncIdx(s, a, lids); }
        } else if (roll < 720 && haveLast) {
            if (rng.coin()) cr.syncSA(ls, la); else { F::State s = drawS(); F::Action a = drawA(); cr.syncSA(s, a); }
        } else if (roll < 800) {
            cr.syncAll();
        } else if (roll < 930) {
            F::State s = rng.coin() && haveLast ? ls : drawS(); F::Action a = rng.coin() && haveLast ? la : drawA();
            cr.query(s, a, drawS1());
        } else if (roll < 960) {
            cr.reset();
        } else if (roll < 980) {
            cr.ctor(rng.coin());
        }
    }
    if (withThompson) {
        FM::CooperativeThompsonModel tm(cr.exp, 0.9);
        for (size_t i = 0; i < nf; ++i) thompsonLineCoop(cr.exp, tm, i);
        tm.sync();
        for (size_t i = 0; i < nf; ++i) thompsonLineCoop(cr.exp, tm, i);
        coopQueryLine("CooperativeThompsonModel", cr.g, tm, rng, 4);
    }
    if (cr.mod) coopQueryLine("CooperativeMaximumLikelihoodModel", cr.g, *cr.mod, rng, 3);
    cr.finish();
}

// ---------------------------------------------------------------------------------------------
// ThompsonModel<MDP::Experience>
template <class E>
static void thompsonLine(const char * comp, const E & exp, const M::ThompsonModel<E> & tm) {
    size_t S = exp.getS(), A = exp.getA();
    Line l; l << "C07" << "thompson" << comp << S << S * A;
    for (size_t s = 0; s < S; ++s) for (size_t a = 0; a < A; ++a) {
        for (size_t s1 = 0; s1 < S; ++s1) l << (size_t)exp.getVisits(s, a, s1);
        l << (size_t)exp.getVisitsSum(s, a) << exp.getReward(s, a);
        for (size_t s1 = 0; s1 < S; ++s1) l << tm.getTransitionProbability(s, a, s1);
        l << tm.getExpectedReward(s, a, 0);
    }
    l.emit();
}

template <class E>
static void thompsonCase(const char * comp, Rng & rng, long nrec, int rewardMode) {
    size_t S = (size_t)rng.range(1, 5), A = (size_t)rng.range(1, 3);
    E exp(S, A);
    M::ThompsonModel<E> tm(exp, 0.9);
    thompsonLine(comp, exp, tm);            // no data at all: pure prior draws, MLE rewards (0)
    for (long k = 0; k < nrec; ++k) {
        size_t s = rng.coin(2, 3) ? 0 : rng.below(S), a = rng.below(A);
        exp.record(s, a, rng.below(S), drawReward(rng, rewardMode));
        if (rng.coin(1, 4)) tm.sync(s, a);
    }
    tm.sync();
    thompsonLine(comp, exp, tm);
    if (rng.coin()) { exp.reset(); tm.sync(); thompsonLine(comp, exp, tm); }
}

// ---------------------------------------------------------------------------------------------
// Thompson models with the engine outputs: the harness replays the model's private std::mt19937 from the
// same seed (ThompsonModel: Seeder::getSeed() under a fixed root seed; CooperativeThompsonModel: the engine is
// default-constructed) and performs the same sequence of distribution calls, so it knows every draw.
struct TRow { std::vector<size_t> cnt; size_t N; double mean, M2; std::vector<double> g; double t, sd; };

static TRow shadowSync(std::mt19937 & eng, const std::vector<size_t> & cnt, size_t N, double mean, double M2) {
    TRow r{cnt, N, mean, M2, {}, 0.0, 0.0};
    for (auto c : cnt) { std::gamma_distribution<double> d((double)c + 0.5, 1.0); r.g.push_back(d(eng)); }
    if (N >= 2) {
        std::student_t_distribution<double> d((double)(N - 1));
        r.t = d(eng);
        r.sd = std::sqrt(M2 / (double)(N * (N - 1)));
    }
    return r;
}

static void emitT(Line & l, const TRow & r) {
    for (auto c : r.cnt) l << c;
    l << r.N << r.mean << r.M2;
    for (auto g : r.g) l << g;
    l << r.t << r.sd;
}

template <class E>
static void tsyncCase(const char * comp, Rng & rng, long nrec, int rewardMode) {
    size_t S = (size_t)rng.range(1, 5), A = (size_t)rng.range(1, 3);
    unsigned root = (unsigned)rng.next();
    AIToolbox::Seeder::setRootSeed(root);
    unsigned seed = AIToolbox::Seeder::getSeed();
    AIToolbox::Seeder::setRootSeed(root);
    E exp(S, A);
    // some data before construction in half of the cases
    if (rng.coin()) for (long k = 0; k < nrec / 2; ++k) exp.record(rng.below(S), rng.below(A), rng.below(S), drawReward(rng, rewardMode));
    std::mt19937 shadow(seed);
    std::vector<TRow> last(S * A);
    auto snap = [&](size_t s, size_t a) {
        std::vector<size_t> cnt(S); for (size_t s1 = 0; s1 < S; ++s1) cnt[s1] = exp.getVisits(s, a, s1);
        last[s * A + a] = shadowSync(shadow, cnt, exp.getVisitsSum(s, a), exp.getReward(s, a), exp.getM2(s, a));
    };
    auto syncAllShadow = [&]() { for (size_t a = 0; a < A; ++a) for (size_t s = 0; s < S; ++s) snap(s, a); };
    auto emit = [&](const M::ThompsonModel<E> & tm) {
        Line l; l << "C07" << "tsync" << comp << S << S * A;
        for (size_t s = 0; s < S; ++s) for (size_t a = 0; a < A; ++a) {
            emitT(l, last[s * A + a]);
            for (size_t s1 = 0; s1 < S; ++s1) l << tm.getTransitionProbability(s, a, s1);
            l << tm.getExpectedReward(s, a, 0);
        }
        l.emit();
    };
    M::ThompsonModel<E> tm(exp, 0.9); syncAllShadow();
    emit(tm);
    for (long k = 0; k < nrec; ++k) {
        size_t s = rng.coin(2, 3) ? 0 : rng.below(S), a = rng.below(A);
        exp.record(s, a, rng.below(S), drawReward(rng, rewardMode));
        if (rng.coin(1, 3)) { snap(s, a); tm.sync(s, a); }
        if (rng.coin(1, 40)) { syncAllShadow(); tm.sync(); emit(tm); }
    }
    emit(tm);
    if (rng.coin()) { exp.reset(); syncAllShadow(); tm.sync(); emit(tm); }
}

static void tsyncCoopCase(Rng & rng, long nrec, int rewardMode) {
    F::DDNGraph g = randomGraph(rng);
    const auto & S = g.getS(); const auto & A = g.getA();
    size_t nf = S.size();
    FM::CooperativeExperience exp(g);
    // CooperativeThompsonModel seeds its engine from Seeder (it did not before repo 10a0de3): find out which seed the first
    // object created after this point receives, then re-root so that the model below is that first object
    unsigned root = (unsigned)rng.next();
    AIToolbox::Seeder::setRootSeed(root);
    unsigned seed = AIToolbox::Seeder::getSeed();
    AIToolbox::Seeder::setRootSeed(root);
    std::mt19937 shadow(seed);
    std::vector<std::vector<TRow>> last(nf);
    for (size_t i = 0; i < nf; ++i) last[i].resize(g.getSize(i));
    auto snap = [&](size_t i, size_t j) {
        std::vector<size_t> cnt(S[i]); for (size_t k = 0; k < S[i]; ++k) cnt[k] = exp.getVisitsTable()[i](j, k);
        last[i][j] = shadowSync(shadow, cnt, exp.getVisitsTable()[i](j, S[i]), exp.getRewardMatrix()[i][j], exp.getM2Matrix()[i][j]);
    };
    auto syncAllShadow = [&]() { for (size_t i = 0; i < nf; ++i) for (size_t j = 0; j < g.getSize(i); ++j) snap(i, j); };
    auto emit = [&](const FM::CooperativeThompsonModel & tm) {
        for (size_t i = 0; i < nf; ++i) {
            Line l; l << "C07" << "tsync" << "CooperativeThompsonModel" << S[i] << g.getSize(i);
            for (size_t j = 0; j < g.getSize(i); ++j) {
                emitT(l, last[i][j]);
                for (size_t k = 0; k < S[i]; ++k) l << tm.getTransitionFunction().transitions[i](j, k);
                l << tm.getRewardFunction()[i][j];
            }
            l.emit();
        }
    };
    FM::CooperativeThompsonModel tm(exp, 0.9); syncAllShadow();
    emit(tm);
    for (long k = 0; k < nrec; ++k) {
        F::State s(nf), s1(nf); F::Action a(A.size());
        for (size_t q = 0; q < nf; ++q) { s[q] = rng.coin(3, 4) ? 0 : rng.below(S[q]); s1[q] = rng.below(S[q]); }
        for (size_t q = 0; q < A.size(); ++q) a[q] = rng.below(A[q]);
        F::Rewards rews(nf); for (size_t i = 0; i < nf; ++i) rews[i] = drawReward(rng, rewardMode);
        const auto & ids = exp.record(s, a, s1, rews);
        if (rng.coin(1, 3)) {
            for (size_t i = 0; i < nf; ++i) snap(i, g.getId(i, s, a));
            if (rng.coin()) tm.sync(s, a); else tm.sync(ids);
        }
        if (rng.coin(1, 40)) { syncAllShadow(); tm.sync(); emit(tm); }
    }
    emit(tm);
    coopQueryLine("CooperativeThompsonModel", g, tm, rng, 3);
}

// ---------------------------------------------------------------------------------------------
// table setters (setVisitsTable / setRewardMatrix / setM2Matrix, Eigen-typed and element-wise overloads) interleaved
// with record / reset, and a MaximumLikelihoodModel constructed with sync = true over the loaded tables
template <class E> struct SetterTypes;
template <> struct SetterTypes<M::Experience> {
    static constexpr const char * name = "dense-set"; static constexpr bool tol = false;
    static void setV(M::Experience & e, const std::vector<std::vector<std::vector<unsigned long>>> & v, size_t S, size_t A) {
        AIToolbox::Table3D t(A, AIToolbox::Table2D(S, S));
        for (size_t s = 0; s < S; ++s) for (size_t a = 0; a < A; ++a) for (size_t s1 = 0; s1 < S; ++s1) t[a](s, s1) = v[s][a][s1];
        e.setVisitsTable(t);
    }
    static void setM(M::Experience & e, const std::vector<std::vector<double>> & r, size_t S, size_t A, bool m2) {
        AIToolbox::Matrix2D m(S, A);
        for (size_t s = 0; s < S; ++s) for (size_t a = 0; a < A; ++a) m(s, a) = r[s][a];
        if (m2) e.setM2Matrix(m); else e.setRewardMatrix(m);
    }
};
template <> struct SetterTypes<M::SparseExperience> {
    static constexpr const char * name = "sparse-set"; static constexpr bool tol = true;
    static void setV(M::SparseExperience & e, const std::vector<std::vector<std::vector<unsigned long>>> & v, size_t S, size_t A) {
        AIToolbox::SparseTable3D t(A, AIToolbox::SparseTable2D(S, S));
        for (size_t s = 0; s < S; ++s) for (size_t a = 0; a < A; ++a) for (size_t s1 = 0; s1 < S; ++s1) if (v[s][a][s1]) t[a].insert(s, s1) = v[s][a][s1];
        e.setVisitsTable(t);
    }
    static void setM(M::SparseExperience & e, const std::vector<std::vector<double>> & r, size_t S, size_t A, bool m2) {
        AIToolbox::SparseMatrix2D m(S, A);
        for (size_t s = 0; s < S; ++s) for (size_t a = 0; a < A; ++a) if (r[s][a] != 0.0) m.insert(s, a) = r[s][a];
        if (m2) e.setM2Matrix(m); else e.setRewardMatrix(m);
    }
};

template <class E>
static void setterCase(Rng & rng, long nops, double junk) {
    using T = SetterTypes<E>;
    size_t S = (size_t)rng.range(1, 4), A = (size_t)rng.range(1, 2);
    E exp(S, A);
    std::vector<std::string> toks; size_t n = 0;
    auto N = [&](size_t x) { toks.push_back(std::to_string(x)); };
    auto D = [&](double x) { toks.push_back(X(x)); };
    auto obs = [&](size_t s, size_t a) { for (size_t s1 = 0; s1 < S; ++s1) N(exp.getVisits(s, a, s1)); N(exp.getVisitsSum(s, a)); D(exp.getReward(s, a)); D(exp.getM2(s, a)); };
    auto dump = [&]() { for (size_t s = 0; s < S; ++s) for (size_t a = 0; a < A; ++a) obs(s, a); };
    for (long k = 0; k < nops; ++k) {
        unsigned roll = (unsigned)rng.below(100);
        if (roll < 50) {
            size_t s = rng.below(S), a = rng.below(A), s1 = rng.below(S); double r = drawReward(rng, 0);
            exp.record(s, a, s1, r);
            toks.push_back("r"); N(s * A + a); N(s1); D(r); obs(s, a);
        } else if (roll < 55) {
            exp.reset(); toks.push_back("R"); dump();
        } else if (roll < 67) {
            std::vector<std::vector<std::vector<unsigned long>>> v(S, std::vector<std::vector<unsigned long>>(A, std::vector<unsigned long>(S, 0)));
            for (auto & x : v) for (auto & y : x) for (auto & z : y) z = rng.coin(1, 2) ? 0 : (unsigned long)rng.range(1, 6);
            if (rng.coin()) exp.setVisitsTable(v); else T::setV(exp, v, S, A);      // element-wise / Eigen-typed overload
            toks.push_back("V"); for (size_t s = 0; s < S; ++s) for (size_t a = 0; a < A; ++a) for (size_t s1 = 0; s1 < S; ++s1) N(v[s][a][s1]);
            dump();
        } else if (roll < 87) {
            bool m2 = roll >= 77;
            std::vector<std::vector<double>> r(S, std::vector<double>(A, 0.0));
            bool naive = rng.coin();
            for (auto & x : r) for (auto & y : x) {
                unsigned c = (unsigned)rng.below(8);
                y = c < 2 ? 0.0 : (c == 2 ? 5e-7 : (m2 ? (double)rng.range(0, 40) / 4.0 : (double)rng.range(-32, 32) / 4.0));   // 5e-7: below the sparse element-wise store threshold
            }
            if (naive) { if (m2) exp.setM2Matrix(r); else exp.setRewardMatrix(r); } else T::setM(exp, r, S, A, m2);
            toks.push_back(m2 ? "Q" : "M"); N(naive && T::tol ? 1 : 0);
            for (size_t s = 0; s < S; ++s) for (size_t a = 0; a < A; ++a) D(r[s][a]);
            dump();
        } else {
            M::MaximumLikelihoodModel<E> mod(exp, 0.9, true);
            toks.push_back("F");
            for (size_t s = 0; s < S; ++s) for (size_t a = 0; a < A; ++a) { for (size_t s1 = 0; s1 < S; ++s1) D(mod.getTransitionProbability(s, a, s1)); D(mod.getExpectedReward(s, a, 0)); }
        }
        ++n;
    }
    Line l; l << "C07" << "sethist" << T::name << S * A << S << A << junk << n;
    for (auto & t : toks) l << t;
    l.emit();
    std::printf("#stat setters_%s 1\n", T::name);
}

// ---------------------------------------------------------------------------------------------
static const long kFixed = 12;

long verif::verif_ncases(const std::string & tier) { return kFixed + (tier == "thorough" ? 5000 : 330); }

using DenseDense = FlatRun<M::Experience, M::MaximumLikelihoodModel<M::Experience>>;
using SparseDense = FlatRun<M::SparseExperience, M::MaximumLikelihoodModel<M::SparseExperience>>;
using SparseSparse = FlatRun<M::SparseExperience, M::SparseMaximumLikelihoodModel<M::SparseExperience>>;
using GenericDense = FlatRun<GenericExperience, M::MaximumLikelihoodModel<GenericExperience>>;
using GenericSparse = FlatRun<GenericExperience, M::SparseMaximumLikelihoodModel<GenericExperience>>;

template <class Run>
static void randomFlat(const char * variant, Rng & rng, const std::string & tier, long idx, bool junkClass, double junk) {
    FlatOpts o;
    o.S = (size_t)rng.range(1, 5); o.A = (size_t)rng.range(1, 3);
    // now and then a wider state space (Eigen takes its packet / unrolled paths for rows of 8+ doubles) and more actions
    bool wide = rng.coin(1, 10);
    if (wide) { o.S = (size_t)rng.range(6, 19); o.A = (size_t)rng.range(1, 5); }
    long maxOps = tier == "thorough" ? 1500 : 200;
    o.nops = rng.coin(1, 4) ? rng.range(3, 20) : rng.range(20, maxOps);
    o.rewardMode = rng.coin(1, 6) ? 1 : (rng.coin(1, 12) ? 2 : 0);
    // the sparse model keeps a reward that moved by less than equalToleranceSmall (finding C07-sparse-reward-lag):
    // values straddling that tolerance are kept to designated cases so that the other histories run to their end
    if (o.rewardMode == 1 && std::string(variant) == "sparse" && idx % 16 != 3) o.rewardMode = 3;
    o.ctorFirst = rng.coin(); o.ctorSync = rng.coin(); o.ctorAfter = rng.range(1, 25);
    o.rowIsJunkOnCtorSync = junkClass;
    o.allowIncAfterReset = (idx % 16 == 5);
    o.allowCtorJunk = (idx % 16 == 9);
    o.violatePre = (idx % 16 == 13);
    o.resetPermille = rng.coin(1, 3) ? 0 : 15;
    o.hot = rng.coin() ? (size_t)rng.range(1, 3) : 0;
    Run fr(o, rng, variant);
    fr.run(junk);
    if (wide) std::printf("#stat flat_wide_S_6_to_19 1\n");
    std::printf("#stat flat_%s 1\n#stat S_%zu 1\n#stat ops_%s 1\n", variant, std::min<size_t>(o.S, 6), o.nops < 20 ? "lt20" : (o.nops < 200 ? "lt200" : "ge200"));
    if (o.violatePre) std::printf("#stat stream_violating_precondition 1\n");
    if (o.rewardMode) std::printf("#stat reward_mode_%d 1\n", o.rewardMode);
}

// one long run on a single pair that crosses the forced-resync period of sync(s,a,s1)
template <class Run>
static void periodRun(const char * variant, Rng & rng, bool junkClass, double junk, long total, bool constReward) {
    FlatOpts o; o.S = 3; o.A = 1; o.nops = 0; o.rowIsJunkOnCtorSync = junkClass;
    Run fr(o, rng, variant);
    fr.doCtor(false);
    for (long k = 0; k < total; ++k) {
        size_t s1 = rng.below(3);
        fr.doRecord(1, 0, s1, constReward ? 0.5 : (double)rng.range(-8, 8) / 4.0);
        fr.doInc(1, 0, s1);
    }
    fr.finish(junk);
    std::printf("#stat period_crossing_run 1\n");
}

void verif::verif_case(Rng & rng, long idx, const std::string & tier) {
    const double junk = heapJunk();
    switch (idx) {
        // ---- witnesses / regressions (lowest indices)
        case 0:  // finding C07-ctor-uninit: dense constructor with sync = true, pair (1,0) never visited
            scripted<M::Experience, M::MaximumLikelihoodModel<M::Experience>>("dense", 2, 1,
                {{REC, 0, 0, 1, 1.0}, {CTOR, 1}}, junk, true);
            return;
        case 1:  // finding C07-inc-after-reset (dense): sync(), reset(), one record, sync(s,a,s1)
            scripted<M::Experience, M::MaximumLikelihoodModel<M::Experience>>("dense", 3, 1,
                {{CTOR, 0}, {REC, 0, 0, 1, 1.0}, {REC, 0, 0, 2, 2.0}, {SYNCALL}, {RESET}, {REC, 0, 0, 1, 4.0}, {INC, 0, 0, 1}}, junk, true);
            return;
        case 2:  // same, sparse model
            scripted<M::SparseExperience, M::SparseMaximumLikelihoodModel<M::SparseExperience>>("sparse", 3, 1,
                {{CTOR, 0}, {REC, 0, 0, 1, 1.0}, {REC, 0, 0, 2, 2.0}, {SYNCALL}, {RESET}, {REC, 0, 0, 1, 4.0}, {INC, 0, 0, 1}}, junk, false);
            return;
        case 3:  // sparse model: reward moves by less than equalToleranceSmall between two syncs
            scripted<M::SparseExperience, M::SparseMaximumLikelihoodModel<M::SparseExperience>>("sparse", 2, 1,
                {{CTOR, 0}, {REC, 0, 0, 1, 1.0}, {INC, 0, 0, 1}, {REC, 0, 0, 1, 1.0 + 1e-7}, {INC, 0, 0, 1}}, junk, false);
            return;
        case 4:  // the unit-test script of the repository (record, sync(s,a,s1) after every record), must pass
            scripted<M::Experience, M::MaximumLikelihoodModel<M::Experience>>("dense", 3, 2,
                {{CTOR, 0}, {REC, 0, 0, 1, 10}, {INC, 0, 0, 1}, {REC, 0, 0, 2, 10}, {INC, 0, 0, 2}, {REC, 0, 0, 1, 5}, {INC, 0, 0, 1},
                 {REC, 1, 1, 1, 0.5}, {SYNC, 1, 1}, {REC, 0, 0, 0, 0}, {INC, 0, 0, 0}}, junk, true);
            return;
        case 5:  // model constructed after data, sync = false, then full syncs only
            scripted<M::SparseExperience, M::MaximumLikelihoodModel<M::SparseExperience>>("dsparse", 2, 2,
                {{REC, 0, 1, 1, 1.0}, {REC, 0, 1, 1, 3.0}, {REC, 1, 0, 0, -2.0}, {CTOR, 0}, {SYNC, 0, 1}, {SYNCALL}}, junk, true);
            return;
        case 6: periodRun<DenseDense>("dense", rng, true, junk, tier == "thorough" ? 20100 : 10050, false); return;
        case 7: periodRun<SparseSparse>("sparse", rng, false, junk, tier == "thorough" ? 20100 : 10050, true); return;
        case 8:  // generic experience: first full sync when two records are already there
            scripted<GenericExperience, M::MaximumLikelihoodModel<GenericExperience>>("generic", 3, 1,
                {{CTOR, 0}, {REC, 0, 0, 1, 1.0}, {REC, 0, 0, 2, 2.0}, {SYNC, 0, 0}}, junk, true);
            return;
        case 9:  // finding C07-sparse-generic-sync: sparse model over a getter-only experience, first sync(s,a) after two records
            scripted<GenericExperience, M::SparseMaximumLikelihoodModel<GenericExperience>>("gsparse", 3, 1,
                {{CTOR, 0}, {REC, 0, 0, 1, 1.0}, {REC, 0, 0, 2, 2.0}, {SYNC, 0, 0}}, junk, false);
            return;
        case 10: {  // a DDN node with TWO parent agents and S[k] < A[k]: joint actions (2,0) and (0,1) must address different rows
            F::DDNGraph g({2, 3}, {3, 2});
            g.push({{0, 1}, {{1}, {0}, {0, 1}, {1}, {0}, {1}}});
            g.push({{1}, {{0}, {1}}});
            CoopRun cr(std::move(g), junk);
            auto RW = [](std::initializer_list<double> l) { F::Rewards r(l.size()); long i = 0; for (auto x : l) r[i++] = x; return r; };
            cr.ctor(false);
            auto i1 = cr.record({1, 2}, {2, 0}, {0, 1}, RW({1.0, 2.0}));
            cr.syncSA({1, 2}, {2, 0});
            auto i2 = cr.record({1, 2}, {0, 1}, {1, 2}, RW({3.0, -1.0}));
            cr.syncIdx({1, 2}, {0, 1}, i2);
            cr.query({1, 2}, {2, 0}, {0, 1});
            cr.query({1, 2}, {0, 1}, {1, 2});
            cr.record({0, 2}, {2, 0}, {1, 1}, RW({5.0, 0.5}));     // same context as the first record for feature 0 (parent = feature 1 only)
            cr.syncAll();
            cr.query({0, 2}, {2, 0}, {1, 1});
            cr.reset();
            cr.record({1, 0}, {1, 1}, {0, 0}, RW({0.25, 0.75}));
            cr.ctor(true);
            cr.query({1, 0}, {1, 1}, {0, 0});
            (void)i1;
            cr.finish();
            std::printf("#stat coop_witness_two_parent_agents 1\n");
            return;
        }
        case 11:   // factored bandit: non-uniform action sizes, non-prefix and three-key dependency tags
            fbanditCase(rng, 60, 0, junk, true); std::printf("#stat fbandit_witness_shapes 1\n");
            return;
        default: break;
    }
    long k = idx - kFixed;
    long nops = tier == "thorough" ? 1200 : 150;
    if (k % 23 == 22) {
        // sparse model over the getter-only experience.  Its element-wise sync(s,a) leaves cells without visits untouched
        // (finding C07-sparse-generic-sync); histories here sync every pair right after its first record and never reset,
        // which is the only regime in which that branch is right.
        FlatOpts o; o.S = (size_t)rng.range(1, 4); o.A = (size_t)rng.range(1, 2); o.nops = 0;
        GenericSparse fr(o, rng, "gsparse");
        fr.doCtor(false);
        long n = rng.range(5, tier == "thorough" ? 600 : 120);
        for (long q = 0; q < n; ++q) {
            size_t p = rng.below(o.S * o.A), s1 = rng.below(o.S);
            fr.doRecord(p / o.A, p % o.A, s1, drawReward(rng, 0));
            if (fr.N[p] == 1 || rng.coin(2, 3)) { if (rng.coin() && fr.pend[p] == 1) fr.doInc(p / o.A, p % o.A, s1); else fr.doSync(p / o.A, p % o.A); }
            if (rng.coin(1, 25)) fr.doSyncAll();
        }
        fr.finish(junk);
        std::printf("#stat flat_gsparse 1\n");
        return;
    }
    if (k % 13 == 12) {
        if (rng.coin()) setterCase<M::Experience>(rng, rng.range(2, tier == "thorough" ? 400 : 80), junk);
        else setterCase<M::SparseExperience>(rng, rng.range(2, tier == "thorough" ? 400 : 80), junk);
        return;
    }
    switch (k % 11) {
        case 0: case 1: randomFlat<DenseDense>("dense", rng, tier, idx, true, junk); break;
        case 2: randomFlat<SparseDense>("dsparse", rng, tier, idx, true, junk); break;
        case 3: case 4: randomFlat<SparseSparse>("sparse", rng, tier, idx, false, junk); break;
        case 5: randomFlat<GenericDense>("generic", rng, tier, idx, true, junk); break;
        case 6: banditCase(rng, rng.range(1, nops), rng.coin(1, 5) ? 1 : 0, junk); std::printf("#stat bandit 1\n"); break;
        case 7: fbanditCase(rng, rng.range(1, nops), rng.coin(1, 5) ? 1 : 0, junk); std::printf("#stat fbandit 1\n"); break;
        case 8: case 9: coopCase(rng, rng.range(1, nops), rng.coin(1, 5) ? 1 : 0, junk, rng.coin(1, 3)); std::printf("#stat coop 1\n"); break;
        case 10:
            if (rng.coin(1, 2)) {
                switch (rng.below(4)) {
                    case 0: tsyncCase<M::Experience>("ThompsonModel", rng, rng.range(0, nops), rng.coin(1, 5) ? 1 : 0); break;
                    case 1: tsyncCase<M::SparseExperience>("ThompsonModel<SparseExperience>", rng, rng.range(0, nops), rng.coin(1, 5) ? 1 : 0); break;
                    case 2: tsyncCase<GenericExperience>("ThompsonModel<generic>", rng, rng.range(0, nops), rng.coin(1, 5) ? 1 : 0); break;
                    default: tsyncCoopCase(rng, rng.range(0, nops), rng.coin(1, 5) ? 1 : 0); break;
                }
                std::printf("#stat thompson_with_draws 1\n");
            }
            else if (rng.coin(2, 3)) { thompsonCase<M::Experience>("ThompsonModel", rng, rng.range(0, nops), rng.coin(1, 5) ? 1 : 0); std::printf("#stat thompson 1\n"); }
            else { thompsonCase<GenericExperience>("ThompsonModel<generic>", rng, rng.range(0, nops), rng.coin(1, 5) ? 1 : 0); std::printf("#stat thompson_generic 1\n"); }   // element-wise gamma branch
            break;
    }
}

VERIF_MAIN
