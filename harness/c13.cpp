// C13 correspondence harness: coordination-graph maximisers.
//   VariableElimination, MultiObjectiveVariableElimination, UCVE  (exact)
//   MaxPlus, LocalSearch, ReusingIterativeLocalSearch            (approximate)
// Every case: one agent space A, one factor structure (list of key sets), a short history of
// rule sets over that structure; every maximiser object (and its graph) is reused across the
// history.  One protocol line per (maximiser, call):  inputs | implementation outputs.
// The driver evaluates the property's clauses by exact brute force in Q and diffs the Lean
// models (semantic VE, table-level VE, evaluateGraph) against the outputs.
#include "common/verif.hpp"
#include <AIToolbox/Seeder.hpp>
#include <AIToolbox/Factored/Utils/Core.hpp>
#include <AIToolbox/Factored/Bandit/Algorithms/Utils/VariableElimination.hpp>
#include <AIToolbox/Factored/Bandit/Algorithms/Utils/MultiObjectiveVariableElimination.hpp>
#include <AIToolbox/Factored/Bandit/Algorithms/Utils/UCVE.hpp>
#include <AIToolbox/Factored/Bandit/Algorithms/Utils/MaxPlus.hpp>
#include <AIToolbox/Factored/Bandit/Algorithms/Utils/LocalSearch.hpp>
#include <AIToolbox/Factored/Bandit/Algorithms/Utils/ReusingIterativeLocalSearch.hpp>
#include <AIToolbox/Factored/Bandit/Algorithms/Utils/GraphUtils.hpp>
#include <algorithm>
#include <set>

using namespace verif;
namespace F = AIToolbox::Factored;
namespace FB = AIToolbox::Factored::Bandit;

using Rules = std::vector<FB::QFunctionRule>;
using MORules = std::vector<FB::MOQFunctionRule>;
using URules = FB::UCVE::Factor;

static void stat(const char * k, long n = 1) { std::printf("#stat %s %ld\n", k, n); }

// ---------------------------------------------------------------- emitters (call the real library)

static void putRules(Line & l, const Rules & rules) {
    l << (size_t)rules.size();
    for (auto & r : rules) { l.nats(r.action.first); l.nats(r.action.second); l << r.value; }
}

struct Maximisers {
    FB::VariableElimination ve;
    FB::VariableElimination::Graph veGraph{0};
    FB::LocalSearch ls;
    FB::MaxPlus mp;
    FB::ReusingIterativeLocalSearch rils;
    std::unique_ptr<FB::LocalSearch::Graph> lsGraph;   // shared by LS / MaxPlus / RILS (same Graph type)
    std::unique_ptr<FB::LocalSearch::Graph> lsGraphQF; // the same, built and updated by the QFunction overloads
    FB::MultiObjectiveVariableElimination move;
    FB::UCVE ucve;
    Maximisers(unsigned mpIters, double p1, double p2, unsigned trials, bool force)
        : mp(mpIters), rils(p1, p2, trials, force) {}
};

static void run_ve(Maximisers & M, int call, const F::Action & A, const Rules & rules) {
    FB::UpdateGraph<FB::VariableElimination>()(M.veGraph, rules, A);
    auto [a, v] = M.ve(A, M.veGraph);
    Line l; l << "C13" << "ve" << call; l.nats(A); putRules(l, rules); l << "|"; l.nats(a) << v; l.emit();
}

// the bookkeeping of FactorGraph::getFactor as the maximisers see it: node order, and per agent the neighbour list
// (`getVariables(a)`, built by incremental sorted unions) and the adjacent factors in `getFactors(a)` order
static void put_graph(const FB::LocalSearch::Graph & g, int call, const F::Action & A) {
    Line l; l << "C13" << "lsgraph" << call; l.nats(A); l << (size_t)g.factorSize();
    for (auto f = g.begin(); f != g.end(); ++f) l.nats(f->getVariables());
    l << "|";
    for (size_t a = 0; a < A.size(); ++a) {
        l.nats(g.getVariables(a));
        l << (size_t)g.getFactors(a).size();
        for (auto it : g.getFactors(a)) l.nats(it->getVariables());
    }
    l.emit();
}

static void run_approx(Maximisers & M, int call, const F::Action & A, const Rules & rules) {
    auto & g = *M.lsGraph;
    FB::UpdateGraph<FB::LocalSearch>()(g, rules, A);
    if (call == 0) put_graph(g, call, A);
    {
        auto [a, v] = M.ls(A, g);
        Line l; l << "C13" << "ls" << call; l.nats(A); putRules(l, rules); l << "|"; l.nats(a) << v; l.emit();
    }
    {
        auto [a, v] = M.mp(A, g);
        Line l; l << "C13" << "mp" << call; l.nats(A); putRules(l, rules); l << "|"; l.nats(a) << v; l.emit();
        // the same call with everything the message-passing model needs: iteration count and the graph's node order
        Line m; m << "C13" << "mpfull" << call << (size_t)M.mp.getIterations() << (size_t)g.factorSize();
        for (auto f = g.begin(); f != g.end(); ++f) m.nats(f->getVariables());
        m.nats(A); putRules(m, rules); m << "|"; m.nats(a) << v; m.emit();
    }
    {
        auto [a, v] = M.rils(A, g);
        Line l; l << "C13" << "rils" << call; l.nats(A); putRules(l, rules); l << "|"; l.nats(a) << v; l.emit();
    }
}

// ---- QFunction overloads of GraphUtils.hpp (dense bases): UpdateGraphImpl<VE, QFunction>, Make/UpdateGraphImpl<LocalSearch, QFunction>
static void putQF(Line & l, const FB::QFunction & qf) {
    l << (size_t)qf.bases.size();
    for (auto & b : qf.bases) { l.nats(b.tag); l << (size_t)b.values.size(); for (long i = 0; i < b.values.size(); ++i) l << (double)b.values[i]; }
}

// cell-by-cell expansion (what the Lean model calls qfRules): only used to feed the `mpfull` line
static Rules expandQF(const FB::QFunction & qf, const F::Action & A) {
    Rules r;
    for (auto & b : qf.bases)
        for (size_t i = 0; i < (size_t)b.values.size(); ++i)
            r.push_back({{b.tag, F::toFactorsPartial(b.tag, A, i)}, b.values[(long)i]});
    return r;
}

static void run_ve_qf(Maximisers & M, int call, const F::Action & A, const FB::QFunction & qf) {
    FB::UpdateGraph<FB::VariableElimination>()(M.veGraph, qf, A);
    auto [a, v] = M.ve(A, M.veGraph);
    Line l; l << "C13" << "veqf" << call; l.nats(A); putQF(l, qf); l << "|"; l.nats(a) << v; l.emit();
}

static void run_approx_qf(Maximisers & M, int call, const F::Action & A, const FB::QFunction & qf) {
    auto & g = *M.lsGraphQF;
    FB::UpdateGraph<FB::LocalSearch>()(g, qf, A);
    if (call == 0) put_graph(g, call, A);
    {
        auto [a, v] = M.ls(A, g);
        Line l; l << "C13" << "lsqf" << call; l.nats(A); putQF(l, qf); l << "|"; l.nats(a) << v; l.emit();
    }
    {
        auto [a, v] = M.mp(A, g);
        Line l; l << "C13" << "mpqf" << call; l.nats(A); putQF(l, qf); l << "|"; l.nats(a) << v; l.emit();
        Rules rules = expandQF(qf, A);
        Line m; m << "C13" << "mpfull" << call << (size_t)M.mp.getIterations() << (size_t)g.factorSize();
        for (auto f = g.begin(); f != g.end(); ++f) m.nats(f->getVariables());
        m.nats(A); putRules(m, rules); m << "|"; m.nats(a) << v; m.emit();
    }
    {
        auto [a, v] = M.rils(A, g);
        Line l; l << "C13" << "rilsqf" << call; l.nats(A); putQF(l, qf); l << "|"; l.nats(a) << v; l.emit();
    }
}

static void run_move(Maximisers & M, int call, const F::Action & A, size_t nobj, const MORules & rules) {
    auto res = M.move(A, rules);
    Line l; l << "C13" << "move" << call; l.nats(A); l << nobj << (size_t)rules.size();
    for (auto & r : rules) {
        l.nats(r.action.first); l.nats(r.action.second);
        l << (size_t)r.values.size(); for (long i = 0; i < r.values.size(); ++i) l << (double)r.values[i];
    }
    l << "|" << (size_t)res.size();
    for (auto & e : res) {
        l.nats(e.tag.first); l.nats(e.tag.second);
        l << (size_t)e.vals.size(); for (long i = 0; i < e.vals.size(); ++i) l << (double)e.vals[i];
    }
    l.emit();
}

static void run_ucve(Maximisers & M, int call, const F::Action & A, double logtA, const URules & rules) {
    auto [a, v] = M.ucve(A, logtA, rules);
    Line l; l << "C13" << "ucve" << call; l.nats(A); l << logtA << (size_t)rules.size();
    for (auto & r : rules) { l.nats(r.tag.first); l.nats(r.tag.second); l << (double)r.v[0] << (double)r.v[1]; }
    l << "|"; l.nats(a) << (double)v[0] << (double)v[1]; l.emit();
}

static FB::MOQFunctionRule mo(F::PartialAction pa, std::initializer_list<double> vals) {
    FB::MOQFunctionRule r; r.action = std::move(pa); r.values.resize(vals.size());
    size_t i = 0; for (double d : vals) r.values[i++] = d;
    return r;
}
static FB::UCVE::Entry ue(F::PartialAction pa, double m, double n) {
    FB::UCVE::Entry e; e.v = FB::UCVE::V{m, n}; e.tag = std::move(pa); return e;
}

static Rules structureRules(const std::vector<F::PartialKeys> & keysets) {
    Rules s;
    for (auto & k : keysets) s.push_back({{k, F::PartialValues(k.size(), 0)}, 0.0});
    return s;
}

// ---------------------------------------------------------------- fixed witnesses / regressions (lowest indices)

static const long kFixed = 10;

static void fixed_case(long idx) {
    Maximisers M(10, 0.3, 0.1, 10, true);
    switch (idx) {
    case 0: { // DESIGN §12 #25: MOVE drops an agent action matched by no rule
        F::Action A{2, 2};
        MORules r{ mo({{0}, {0}}, {-1, -1}), mo({{0, 1}, {0, 1}}, {-2, -3}) };
        run_move(M, 0, A, 2, r);
        // scalar analogue on VE (believed correct: 0 @ (1,0))
        Rules s{ {{{0}, {0}}, -1.0}, {{{0, 1}, {0, 1}}, -2.0} };
        run_ve(M, 0, A, s);
        break; }
    case 1: { // DESIGN §12 #17: UCVE, two components, one non-trivial: per-component argmax of a non-separable objective
        // component {0}: entries (m,n) = (0, 1) and (3/4, 0); component {1}: (0,0) and (0,1)
        // with logtA = 2 the objective is m + sqrt(n): separate argmax picks (3/4,0)+(0,1) = 7/4;
        // joint optimum (0,1)+(0,1) has sqrt(2) = 1.414 < 1.75 -> fine here; see case 2 for the failing shape.
        F::Action A{2, 2};
        URules r{ ue({{0}, {0}}, 0.0, 1.0), ue({{0}, {1}}, 0.75, 0.0), ue({{1}, {0}}, 0.0, 0.0), ue({{1}, {1}}, 0.0, 1.0) };
        run_ucve(M, 0, A, 2.0, r);
        break; }
    case 2: { // UCVE witness: components {0} and {1}, objective m + sqrt(n) (logtA = 2).
        // agent0: a=0 -> (1/2, 0), a=1 -> (0, 1/4)  [0.5 vs sqrt(.25)=0.5: tie broken towards a=0? no: max_element keeps first max]
        // agent1: a=0 -> (1, 0),   a=1 -> (0, 4)    [1 vs 2 -> a=1]
        // separate: agent0 picks a=0 (1/2,0) [first max], agent1 picks (0,4): total (1/2,4): 0.5+2 = 2.5
        // joint:   (0,1/4)+(0,4) = sqrt(4.25)=2.0616 ; (1/2,0)+(1,0) = 1.5 ; (0,1/4)+(1,0)=1.5 ; -> 2.5 optimal here.
        // A failing one: agent0: a=0 -> (0, 1), a=1 -> (9/8, 0) ; agent1: a=0 -> (0,1), a=1 -> (9/8, 0)
        // separate: 1 vs 1.125 -> a=1 both: total (9/4, 0) = 2.25 ; joint alternatives: (0,2): 1.414 ; (9/8,1): 2.125. fine again.
        // Non-separability bites the other way: sqrt is concave, so mixing hurts; the separate argmax errs when the
        // per-component winner by sqrt is not the joint winner:  agent0: (0,1) vs (7/8,0); agent1: (0,1) vs (7/8,0).
        // separate: 1 > 0.875 -> (0,1) both: (0,2) = 1.414 ; joint best: (7/8,0)+(7/8,0) = 1.75.
        F::Action A{2, 2};
        URules r{ ue({{0}, {0}}, 0.0, 1.0), ue({{0}, {1}}, 0.875, 0.0), ue({{1}, {0}}, 0.0, 1.0), ue({{1}, {1}}, 0.875, 0.0) };
        run_ucve(M, 0, A, 2.0, r);
        break; }
    case 3: { // VE: nested + duplicate + negative + unmentioned agent (agent 2), repeated calls on the same objects
        F::Action A{2, 3, 2, 2};
        Rules r1{ {{{0, 1}, {1, 2}}, -1.5}, {{{1}, {2}}, 2.0}, {{{0, 1}, {1, 2}}, 0.25}, {{{3}, {0}}, -0.5}, {{{0, 1, 3}, {0, 0, 1}}, 1.25} };
        Rules r2{ {{{0, 1}, {0, 0}}, -1.0}, {{{1}, {1}}, -2.0}, {{{3}, {1}}, -0.25} };
        run_ve(M, 0, A, r1); run_ve(M, 1, A, r2); run_ve(M, 2, A, r1);
        M.lsGraph.reset(new FB::LocalSearch::Graph(FB::MakeGraph<FB::LocalSearch>()(r1, A)));
        run_approx(M, 0, A, r1); run_approx(M, 1, A, r2); run_approx(M, 2, A, r1);
        break; }
    case 4: { // no rules at all: every agent unmentioned
        F::Action A{2, 3};
        Rules r{};
        run_ve(M, 0, A, r);
        M.lsGraph.reset(new FB::LocalSearch::Graph(FB::MakeGraph<FB::LocalSearch>()(r, A)));
        run_approx(M, 0, A, r);
        break; }
    case 5: { // all payoffs negative, sparse: optimum is an action matched by no rule
        F::Action A{3, 3, 2};
        Rules r{ {{{0, 1}, {0, 0}}, -1.0}, {{{0, 1}, {1, 1}}, -2.0}, {{{1, 2}, {0, 1}}, -0.5}, {{{1, 2}, {2, 0}}, -4.0}, {{{2}, {0}}, -0.25} };
        run_ve(M, 0, A, r);
        M.lsGraph.reset(new FB::LocalSearch::Graph(FB::MakeGraph<FB::LocalSearch>()(r, A)));
        run_approx(M, 0, A, r);
        MORules m{ mo({{0, 1}, {0, 0}}, {-1, 0.5}), mo({{0, 1}, {1, 1}}, {-2, 1}), mo({{1, 2}, {0, 1}}, {-0.5, -0.5}), mo({{2}, {0}}, {-0.25, 0.25}) };
        run_move(M, 0, A, 2, m);
        break; }
    case 6: { // MOVE on full positive tables (the shape of the unit tests): expected to be right
        F::Action A{2, 2, 2};
        MORules m;
        for (size_t a = 0; a < 2; ++a) for (size_t b = 0; b < 2; ++b) {
            m.push_back(mo({{0, 1}, {a, b}}, {1.0 + a, 2.0 - b + 0.5 * a}));
            m.push_back(mo({{1, 2}, {a, b}}, {0.5 * b + a, 1.0 + b - 0.25 * a}));
        }
        run_move(M, 0, A, 2, m);
        break; }
    case 7: { // UCVE on one connected component with full tables (the shape of the unit test)
        F::Action A{2, 2, 2};
        URules r;
        double ms[8] = {0.25, 0.125, 0.5, 0.375, 0.25, 0.5, 0.0625, 0.25};
        double ns[8] = {0.0625, 0.25, 0.03125, 0.125, 0.5, 0.03125, 0.25, 0.0625};
        int i = 0;
        for (size_t a = 0; a < 2; ++a) for (size_t b = 0; b < 2; ++b) { r.push_back(ue({{0, 1}, {b, a}}, ms[i], ns[i])); ++i; }
        for (size_t a = 0; a < 2; ++a) for (size_t b = 0; b < 2; ++b) { r.push_back(ue({{1, 2}, {b, a}}, ms[i], ns[i])); ++i; }
        run_ucve(M, 0, A, 8.0, r);
        break; }
    case 8: { // QFunction overloads: two bases on the SAME tag (accumulate), a single-agent basis on a non-first agent, an agent in no
        // basis, non-uniform sizes; VE graph reused by a rule call in between; the LS graph reused for a second QFunction
        F::Action A{2, 3, 2};
        auto vec = [](std::initializer_list<double> v) { AIToolbox::Vector x(v.size()); long i = 0; for (double d : v) x[i++] = d; return x; };
        FB::QFunction q1; q1.bases = { {{0, 1}, vec({1, -2, 3, 0, 0.5, -1})}, {{1}, vec({0, 1, -1})}, {{0, 1}, vec({0, 0, 0, 0, 0, 4})} };
        FB::QFunction q2; q2.bases = { {{0, 1}, vec({-1, -2, -3, -0.25, -0.5, -1})}, {{1}, vec({0, -1, -1})}, {{0, 1}, vec({0, 0, 0, 0, 0, 0})} };
        Rules r{ {{{0, 1}, {1, 2}}, -1.5}, {{{2}, {1}}, 2.0} };
        run_ve_qf(M, 0, A, q1); run_ve(M, 1, A, r); run_ve_qf(M, 2, A, q2); run_ve_qf(M, 3, A, q1);
        M.lsGraphQF.reset(new FB::LocalSearch::Graph(FB::MakeGraph<FB::LocalSearch>()(q1, A)));
        run_approx_qf(M, 0, A, q1); run_approx_qf(M, 1, A, q2); run_approx_qf(M, 2, A, q1);
        break; }
    case 9: { // huge and tiny payoffs together (exact in binary64), one rule over ALL agents, single-agent rules on the last agent
        F::Action A{3, 1, 4, 2};
        const double H = 1073741824.0;   // 2^30
        Rules r{ {{{0, 1, 2, 3}, {2, 0, 3, 1}}, 3 * H + 0.25}, {{{3}, {0}}, -2 * H}, {{{3}, {1}}, 0.5}, {{{0, 2}, {2, 3}}, -3 * H}, {{{0, 2}, {1, 1}}, 0.75 - H},
                 {{{2}, {3}}, H}, {{{0, 1, 2, 3}, {0, 0, 0, 0}}, -0.25} };
        run_ve(M, 0, A, r);
        M.lsGraph.reset(new FB::LocalSearch::Graph(FB::MakeGraph<FB::LocalSearch>()(r, A)));
        run_approx(M, 0, A, r);
        break; }
    }
}

// ---------------------------------------------------------------- random structured cases

struct Shape {
    F::Action A;
    std::vector<F::PartialKeys> keysets;
};

static Shape genShape(Rng & rng, bool thorough) {
    Shape s;
    size_t n = rng.coin(1, 12) ? 1 : (size_t)rng.range(2, thorough ? 6 : 5);
    size_t maxA = thorough ? 4 : 3;
    s.A.resize(n);
    // sizes: mostly small; one case in five "wide": non-uniform sizes up to 5 (6 thorough) with the joint space capped
    bool wide = rng.coin(1, 5);
    for (;;) {
        for (auto & a : s.A) a = rng.coin(1, 6) ? 1 : (size_t)rng.range(2, (long)(wide ? maxA + 2 : maxA));
        if (F::factorSpace(s.A) <= (thorough ? 1536u : 640u)) break;
    }
    stat(wide ? "sizes:wide_nonuniform" : "sizes:small");
    { size_t mx = 0; for (auto a : s.A) mx = std::max(mx, a); std::string k = "maxA:" + std::to_string(mx); stat(k.c_str()); }
    int mode = (int)rng.below(7);   // 0 random, 1 chain, 2 two groups (disconnected), 3 nested, 4 singletons + one big, 5 all agents + small, 6 upper agents only
    size_t nk = (size_t)rng.range(0, 5);
    std::set<F::PartialKeys> seen;
    auto add = [&](F::PartialKeys k) {
        std::sort(k.begin(), k.end()); k.erase(std::unique(k.begin(), k.end()), k.end());
        if (k.empty() || seen.count(k)) return;
        seen.insert(k); s.keysets.push_back(k);
    };
    auto randomSubset = [&](size_t lo, size_t hi, size_t maxSize) { // agents in [lo,hi)
        F::PartialKeys k;
        size_t sz = (size_t)rng.range(1, (long)std::min(maxSize, hi - lo));
        while (k.size() < sz) { size_t a = lo + rng.below(hi - lo); if (std::find(k.begin(), k.end(), a) == k.end()) k.push_back(a); }
        return k;
    };
    for (size_t i = 0; i < nk; ++i) {
        switch (mode) {
        case 0: add(randomSubset(0, n, 3)); break;
        case 1: { size_t a = rng.below(n); F::PartialKeys k{a}; if (a + 1 < n) k.push_back(a + 1); if (a + 2 < n && rng.coin(1, 3)) k.push_back(a + 2); add(k); break; }
        case 2: { if (n < 2) { add({0}); break; } size_t cut = (size_t)rng.range(1, (long)n - 1); if (rng.coin()) add(randomSubset(0, cut, 3)); else add(randomSubset(cut, n, 3)); break; }
        case 3: { if (s.keysets.empty() || rng.coin(1, 3)) add(randomSubset(0, n, 3)); else { auto k = rng.pick(s.keysets); if (k.size() > 1) k.erase(k.begin() + (long)rng.below(k.size())); add(k); } break; }
        case 4: { if (i == 0) add(randomSubset(0, n, 4)); else add({rng.below(n)}); break; }
        case 5: { if (i == 0) { F::PartialKeys all(n); for (size_t a = 0; a < n; ++a) all[a] = a; add(all); } else add(randomSubset(0, n, 2)); break; }
        case 6: { size_t lo = n / 2; add(randomSubset(lo, n, 3)); break; }   // agents below n/2 are in no rule; no key set is a prefix
        }
    }
    static const char * names[] = {"shape:random", "shape:chain", "shape:two_groups", "shape:nested", "shape:singletons", "shape:all_agents", "shape:upper_agents_only"};
    stat(names[mode]);
    return s;
}

// entries (partial values) of a key set chosen for one call: full / sparse / single / none; plus duplicates
static std::vector<F::PartialValues> genEntries(Rng & rng, const F::Action & A, const F::PartialKeys & k, int fillMode) {
    std::vector<F::PartialValues> out;
    size_t sp = F::factorSpacePartial(k, A);
    for (size_t id = 0; id < sp; ++id) {
        bool take = fillMode == 0 ? true : fillMode == 1 ? rng.coin() : false;
        if (take) out.push_back(F::toFactorsPartial(k, A, id));
    }
    if (fillMode == 2) out.push_back(F::toFactorsPartial(k, A, rng.below(sp)));
    if (!out.empty() && rng.coin(1, 4)) out.push_back(rng.pick(out));   // duplicate rule (merged on collision)
    return out;
}

static void random_case(Rng & rng, bool thorough) {
    AIToolbox::Seeder::setRootSeed((unsigned)rng.next());
    Shape s = genShape(rng, thorough);
    const auto & A = s.A;
    static const unsigned iters[] = {0, 1, 3, 10};
    Maximisers M(iters[rng.below(4)], rng.coin() ? 0.3 : 0.0, rng.coin() ? 0.1 : 0.5, (unsigned)rng.range(0, 6), rng.coin());
    M.lsGraph.reset(new FB::LocalSearch::Graph(FB::MakeGraph<FB::LocalSearch>()(structureRules(s.keysets), A)));
    // QFunction overloads: one dense basis per key set (sometimes a second basis on the same tag), same structure in every call
    bool useQF = !s.keysets.empty() && rng.coin();
    std::vector<F::PartialKeys> qfTags;
    if (useQF) {
        for (auto & k : s.keysets) if (F::factorSpacePartial(k, A) <= 256) { qfTags.push_back(k); if (rng.coin(1, 4)) qfTags.push_back(k); }
        for (size_t i = qfTags.size(); i > 1; --i) std::swap(qfTags[i - 1], qfTags[rng.below(i)]);
        useQF = !qfTags.empty();
    }
    auto genQF = [&](int regime) {
        FB::QFunction qf;
        for (auto & k : qfTags) {
            AIToolbox::Vector v((long)F::factorSpacePartial(k, A));
            for (long i = 0; i < v.size(); ++i)
                v[i] = regime == 0 ? (double)rng.range(0, 16) / 4.0 : regime == 1 ? (double)rng.range(-16, 16) / 4.0
                     : (rng.coin(1, 3) ? (double)rng.range(-8, 8) * 1073741824.0 : 0.0) + (double)rng.range(-16, 16) / 4.0;
            qf.bases.push_back({k, std::move(v)});
        }
        return qf;
    };
    if (useQF) M.lsGraphQF.reset(new FB::LocalSearch::Graph(FB::MakeGraph<FB::LocalSearch>()(genQF(0), A)));
    int calls = (int)rng.range(1, 3);
    stat("agents", (long)A.size()); stat("keysets", (long)s.keysets.size()); stat("calls", calls);
    for (int c = 0; c < calls; ++c) {
        bool positive = rng.coin(1, 4);
        bool huge = !positive && rng.coin(1, 5);   // signed multiples of 2^30 mixed with quarters: still exact in binary64
        int globalFill = (int)rng.below(4);   // 0 all full, 1 all sparse, 2 mixed, 3 mixed incl. absent key sets
        Rules rules; MORules mrules; URules urules;
        size_t nobj = (size_t)rng.range(2, 3);
        bool canonicalU = rng.coin();       // UCVE: means in [0,1], positive counts
        for (auto & k : s.keysets) {
            int fm = globalFill == 0 ? 0 : globalFill == 1 ? 1 : (int)rng.below(globalFill == 2 ? 3 : 4);
            if (fm == 3) continue;
            for (auto & vals : genEntries(rng, A, k, fm)) {
                double v = positive ? (double)rng.range(0, 16) / 4.0 : (double)rng.range(-16, 16) / 4.0;
                if (huge && rng.coin(1, 3)) v += (double)rng.range(-8, 8) * 1073741824.0;
                rules.push_back({{k, vals}, v});
                FB::MOQFunctionRule mr; mr.action = {k, vals}; mr.values.resize((long)nobj);
                for (size_t o = 0; o < nobj; ++o) mr.values[(long)o] = positive ? (double)rng.range(0, 12) / 4.0 : (double)rng.range(-12, 12) / 4.0;
                mrules.push_back(std::move(mr));
                double m = canonicalU ? (double)rng.range(0, 8) / 8.0 : (double)rng.range(-8, 8) / 8.0;
                double cnt = canonicalU ? (double)rng.range(1, 8) / 16.0 : (double)rng.range(0, 8) / 16.0;
                urules.push_back(ue({k, vals}, m, cnt));
            }
        }
        // rules arrive in arbitrary order (UpdateGraph sorts / merges)
        for (size_t i = rules.size(); i > 1; --i) {
            size_t j = rng.below(i);
            std::swap(rules[i - 1], rules[j]); std::swap(mrules[i - 1], mrules[j]); std::swap(urules[i - 1], urules[j]);
        }
        stat(positive ? "values:nonneg" : huge ? "values:signed_huge_mixed" : "values:signed"); stat("rules", (long)rules.size());
        { size_t single = 0, allag = 0; for (auto & r : rules) { single += r.action.first.size() == 1; allag += r.action.first.size() == A.size() && A.size() > 1; }
          stat("rules:single_agent", (long)single); stat("rules:all_agents", (long)allag); }
        // VE graph object shared by the rule overload and the QFunction overload (reset + pool reuse in between)
        bool qfFirst = useQF && rng.coin();
        FB::QFunction qf; if (useQF) { qf = genQF(positive ? 0 : huge ? 2 : 1); stat("qf_calls"); stat("qf_bases", (long)qf.bases.size()); }
        if (qfFirst) run_ve_qf(M, c, A, qf);
        run_ve(M, c, A, rules);
        if (useQF && !qfFirst) run_ve_qf(M, c, A, qf);
        run_approx(M, c, A, rules);
        if (useQF) run_approx_qf(M, c, A, qf);
        if (!mrules.empty()) run_move(M, c, A, nobj, mrules);
        static const double logs[] = {1.0, 2.0, 4.0, 8.0, 12.5};
        run_ucve(M, c, A, logs[rng.below(5)], urules);
    }
}

// UCVE stress: ONE connected component, FULLY specified tables (the territory of `ucve_pruning_sound_partial` and
// `ucve_final_partial`): a random tree/chain plus a few chords over 4..6 agents with 2..3 actions, so that the
// elimination cross-sums multi-entry factors and the bound-based pruning actually runs.  Any failure here has the kind
// not_maximal_single_component, which is NOT a recorded finding.
static void ucve_stress_case(Rng & rng, bool thorough) {
    size_t n = (size_t)rng.range(4, thorough ? 7 : 6);
    F::Action A(n);
    for (auto & a : A) a = (size_t)rng.range(2, 3);
    std::set<F::PartialKeys> seen;
    std::vector<F::PartialKeys> keysets;
    auto add = [&](F::PartialKeys k) { std::sort(k.begin(), k.end()); if (k[0] != k[1] && !seen.count(k)) { seen.insert(k); keysets.push_back(k); } };
    for (size_t i = 1; i < n; ++i) add({rng.below(i), i});              // spanning tree: one component
    for (int c = (int)rng.range(0, 3); c > 0; --c) add({rng.below(n), rng.below(n)});   // chords: wider eliminations
    FB::UCVE::Factor rules;
    for (auto & k : keysets) {
        size_t sp = F::factorSpacePartial(k, A);
        for (size_t id = 0; id < sp; ++id)
            rules.push_back(ue({k, F::toFactorsPartial(k, A, id)}, (double)rng.range(0, 16) / 16.0, (double)rng.range(1, 16) / 32.0));
    }
    Maximisers M(1, 0.0, 0.0, 0, true);
    static const double logs[] = {0.5, 1.0, 2.0, 4.0, 8.0, 12.5};
    stat("ucve_stress"); stat("ucve_stress_agents", (long)n); stat("ucve_stress_factors", (long)keysets.size());
    run_ucve(M, 0, A, logs[rng.below(6)], rules);
}

static long nStress(const std::string & tier) { return tier == "thorough" ? 6000 : 1500; }
static long nRandom(const std::string & tier) { return tier == "thorough" ? 20000 : 2500; }
long verif::verif_ncases(const std::string & tier) { return kFixed + nRandom(tier) + nStress(tier); }

void verif::verif_case(Rng & rng, long idx, const std::string & tier) {
    if (idx < kFixed) { fixed_case(idx); return; }
    if (idx < kFixed + nRandom(tier)) { random_case(rng, tier == "thorough"); return; }
    ucve_stress_case(rng, tier == "thorough");
}

VERIF_MAIN
