// C06 — Model objects always describe a valid (PO)MDP.
// Correspondence harness: drives the REAL constructors / setters / conversions of
//   MDP::Model, MDP::SparseModel, POMDP::Model<M>, POMDP::SparseModel<M>  (M dense or sparse),
// the three isProbability implementations, the setDiscount siblings of the learned models,
// AMDP::discretizeDense/Sparse, DDNGraph::push and the CooperativeModel constructor,
// and prints one self-contained protocol line per call:
//   C06 op   <kb> <ko> <op> <pre-state> | <args> | <err> <post-state>
//   C06 ctor <kb> <ko> <pomdp> <which> <args> | <err> [<state>]
//   C06 isprob <n> <row> | <loop> <dense> <sparse>
//   C06 disc <file> <class> <d> <before> | <err> <after>
//   C06 amdp <dense|sparse> <S1> <A> <nev> (s a s1 p r)* | T R
//   C06 push / C06 coop …   (see below)
// state = S A O discount T[a][s][s1] R[s][a] Om[a][s1][o]   (exact tokens, read through the getters)
#include "common/verif.hpp"
#include "common/gen.hpp"
#include <optional>
#include <limits>
#include <AIToolbox/Seeder.hpp>
#include <AIToolbox/Utils/Probability.hpp>
#include <AIToolbox/MDP/Experience.hpp>
#include <AIToolbox/MDP/IO.hpp>
#include <sstream>
#include <AIToolbox/MDP/SparseExperience.hpp>
#include <AIToolbox/MDP/MaximumLikelihoodModel.hpp>
#include <AIToolbox/MDP/SparseMaximumLikelihoodModel.hpp>
#include <AIToolbox/MDP/ThompsonModel.hpp>
#include <AIToolbox/POMDP/Algorithms/AMDP.hpp>
#include <AIToolbox/POMDP/Utils.hpp>
#include <AIToolbox/Factored/MDP/CooperativeModel.hpp>
#include <AIToolbox/Factored/MDP/CooperativeExperience.hpp>
#include <AIToolbox/Factored/MDP/CooperativeMaximumLikelihoodModel.hpp>
#include <AIToolbox/Factored/MDP/CooperativeThompsonModel.hpp>
#include <AIToolbox/Factored/Utils/BayesianNetwork.hpp>

using namespace AIToolbox;
using verif::Rng; using verif::Line;
namespace F = AIToolbox::Factored;
namespace FM = AIToolbox::Factored::MDP;

using V1 = std::vector<double>;
using V2 = std::vector<V1>;
using V3 = std::vector<V2>;
static const double NaN = std::numeric_limits<double>::quiet_NaN();
static const double Inf = std::numeric_limits<double>::infinity();

static void stat(const std::string & k, long n = 1) { std::printf("#stat %s %ld\n", k.c_str(), n); }

// ------------------------------------------------------------------------------------------ candidates
enum RowKind { VALID, UGLY, OFF_SMALL, SUBTHR, N_GOOD,   // accepted by the 3D setters
               OFF_BIG = N_GOOD, NEG, TINYNEG, SUMBAD, NANV, PINFV, NINFV, ZERO, BOUNDARY,
               SIGNFLIP, ALLNEG, NEGBIG, NANNEG, OFF_MID, N_KINDS };
static const char * kindName[] = {"valid", "ugly", "off_small", "subthreshold", "off_big", "negative", "tiny_negative",
                                  "sum_not_one", "nan", "pinf", "ninf", "zero_row", "boundary",
                                  "sign_flipped_entry", "all_negated", "negative_sum_one_big", "nan_and_negative", "off_by_3e-6"};

static V1 makeRow(Rng & rng, size_t n, int kind) {
    V1 r = verif::dyadicRow(rng, n, 3, rng.coin(1, 3));
    size_t big = 0; for (size_t i = 0; i < n; ++i) if (r[i] > r[big]) big = i;
    size_t j = n > 1 ? (big + 1 + rng.below(n - 1)) % n : 0;
    switch (kind) {
        case VALID: break;
        case UGLY: { double tot = 0; V1 w(n); for (auto & x : w) { x = (double)rng.range(rng.coin(1, 3) ? 0 : 1, 7); tot += x; }
                     if (tot == 0) { w[0] = 1; tot = 1; } for (size_t i = 0; i < n; ++i) r[i] = w[i] / tot; break; }
        case OFF_SMALL: r[big] += rng.coin() ? 5e-7 : -5e-7; break;
        case SUBTHR: { if (n < 2) break; size_t k = 1 + rng.below(n - 1); double eps = rng.coin() ? 9e-7 : 4e-7;
                       for (size_t i = 0, c = 0; i < n && c < k; ++i) if (i != big) { r[big] += r[i]; r[i] = eps; r[big] -= eps; ++c; } break; }
        case OFF_BIG: r[big] += rng.coin() ? 1e-5 : -1e-5; break;
        case NEG: if (n > 1) { r[big] += r[j] + 0.25; r[j] = -0.25; } else r[0] = -1.0; break;
        case TINYNEG: if (n > 1) { r[big] += r[j] + 4e-7; r[j] = -4e-7; } else r[0] = -4e-7; break;
        case SUMBAD: if (rng.coin()) for (auto & x : r) x *= 0.5; else for (auto & x : r) x = 1.0; if (n == 1 && r[0] == 1.0) r[0] = 2.0; break;
        case NANV: r[rng.below(n)] = NaN; break;
        case PINFV: r[rng.below(n)] = Inf; break;
        case NINFV: r[rng.below(n)] = -Inf; if (n > 1 && rng.coin()) r[(j)] = Inf; break;
        case ZERO: for (auto & x : r) x = 0.0; break;
        case BOUNDARY: r[big] += rng.coin() ? 1e-6 : -1e-6; break;
        // rows whose ABSOLUTE values sum to one although the row is no distribution (a test on |.| alone lets them through)
        case SIGNFLIP: { size_t k = big; if (n > 1 && rng.coin()) { for (size_t i = 0; i < n; ++i) if (i != big && r[i] > 0) k = i; } r[k] = -r[k]; break; }
        case ALLNEG: for (auto & x : r) x = -x; break;
        // sum exactly one with a large negative entry: (-0.5, 1.5)
        case NEGBIG: if (n > 1) { for (auto & x : r) x = 0.0; r[big] = 1.5; r[j] = -0.5; } else r[0] = -1.0; break;
        case NANNEG: r[big] = NaN; if (n > 1) r[j] = -0.25; break;
        case OFF_MID: r[big] += rng.coin() ? 3e-6 : -3e-6; break;       // three times the documented tolerance
    }
    return r;
}

// a table [X][Y][n] whose rows are mostly acceptable; with probability ~1/2 exactly one row is of a bad kind
static V3 makeTable(Rng & rng, size_t X, size_t Y, size_t n, const char * what) {
    V3 t(X, V2(Y));
    int goodMix = (int)rng.below(4);
    for (size_t x = 0; x < X; ++x) for (size_t y = 0; y < Y; ++y) {
        int k = VALID;
        if (goodMix == 1) k = rng.coin(1, 2) ? UGLY : VALID;
        else if (goodMix == 2) k = (int)rng.below(N_GOOD);
        else if (goodMix == 3) k = rng.coin(1, 3) ? SUBTHR : VALID;
        t[x][y] = makeRow(rng, n, k);
    }
    if (rng.coin(9, 20)) {
        int k = N_GOOD + (int)rng.below(N_KINDS - N_GOOD);
        t[rng.below(X)][rng.below(Y)] = makeRow(rng, n, k);
        stat(std::string(what) + ":" + kindName[k]);
    } else stat(std::string(what) + ":all_rows_acceptable");
    return t;
}

static double makeDiscount(Rng & rng, bool mostlyValid) {
    static const double all[] = {-1.0, 0.0, -0.0, 1e-9, 0.5, 1.0, 1.0 + 1e-9, 2.0, NaN, Inf, -Inf, 0.75, 0.9375, 0.1};
    static const double good[] = {0.5, 1.0, 0.75, 0.9375, 1e-9, 0.1};
    if (mostlyValid && rng.coin(3, 4)) return good[rng.below(6)];
    return all[rng.below(14)];
}

static double makeReward(Rng & rng, int mode) {
    if (mode == 1) return (double)rng.range(-30, 30) / 10.0;                  // non-dyadic
    if (mode == 2 && rng.coin(1, 4)) return rng.coin() ? 5e-7 : -3e-7;        // below the sparse storage threshold
    if (mode == 3 && rng.coin(1, 6)) { int w = (int)rng.below(3); return w == 0 ? NaN : w == 1 ? Inf : -Inf; }
    return verif::dyadicReward(rng);
}
static V3 makeRewards3(Rng & rng, size_t S, size_t A) {
    int mode = (int)rng.below(12); if (mode > 3) mode = 0;
    if (mode == 3) stat("reward_table:nonfinite");
    V3 r(S, V2(A, V1(S)));
    for (auto & x : r) for (auto & y : x) for (auto & z : y) z = makeReward(rng, mode);
    return r;
}
static V2 makeRewards2(Rng & rng, size_t S, size_t A) {
    int mode = (int)rng.below(12); if (mode > 3) mode = 0;
    V2 r(S, V1(A));
    for (auto & x : r) for (auto & y : x) y = makeReward(rng, mode);
    return r;
}

// ------------------------------------------------------------------------------------------ conversions to Eigen inputs
static V3 transposeXY(const V3 & t) {      // [x][y][z] -> [y][x][z]
    size_t X = t.size(), Y = t[0].size();
    V3 r(Y, V2(X));
    for (size_t x = 0; x < X; ++x) for (size_t y = 0; y < Y; ++y) r[y][x] = t[x][y];
    return r;
}
static Matrix3D toDense3(const V3 & t) {   // t[a][row][col]
    Matrix3D m;
    for (auto & a : t) { Matrix2D x(a.size(), a[0].size()); for (size_t i = 0; i < a.size(); ++i) for (size_t j = 0; j < a[0].size(); ++j) x(i, j) = a[i][j]; m.push_back(x); }
    return m;
}
// Eigen sparse inputs come in three storage shapes: compressed without explicit zeros (what the library itself builds),
// compressed WITH explicitly stored zeros, and uncompressed (insert() without makeCompressed(), spare room in every row)
static int g_sparseShape = 0;
static SparseMatrix2D toSparse2(const V2 & a) {
    SparseMatrix2D x(a.size(), a[0].size());
    if (g_sparseShape == 2) x.reserve(Eigen::VectorXi::Constant(a.size(), (int)a[0].size() + 2));
    for (size_t i = 0; i < a.size(); ++i) for (size_t j = 0; j < a[0].size(); ++j) if (g_sparseShape == 1 || !(a[i][j] == 0.0)) x.insert(i, j) = a[i][j];
    if (g_sparseShape != 2) x.makeCompressed();
    return x;
}
static SparseMatrix3D toSparse3(const V3 & t) { SparseMatrix3D m; for (auto & a : t) m.push_back(toSparse2(a)); return m; }
static Matrix2D toDense2(const V2 & a) { Matrix2D x(a.size(), a[0].size()); for (size_t i = 0; i < a.size(); ++i) for (size_t j = 0; j < a[0].size(); ++j) x(i, j) = a[i][j]; return x; }

static void put3(Line & l, const V3 & t) { for (auto & x : t) for (auto & y : x) for (double z : y) l << z; }
static void put2(Line & l, const V2 & t) { for (auto & x : t) for (double z : x) l << z; }

// ------------------------------------------------------------------------------------------ class traits
template <class M> struct Tr;
template <> struct Tr<MDP::Model>       { static constexpr bool pomdp = false, bsparse = false, osparse = false; using Base = MDP::Model; };
template <> struct Tr<MDP::SparseModel> { static constexpr bool pomdp = false, bsparse = true,  osparse = true;  using Base = MDP::SparseModel; };
template <> struct Tr<POMDP::Model<MDP::Model>>             { static constexpr bool pomdp = true, bsparse = false, osparse = false; using Base = MDP::Model; };
template <> struct Tr<POMDP::Model<MDP::SparseModel>>       { static constexpr bool pomdp = true, bsparse = true,  osparse = false; using Base = MDP::SparseModel; };
template <> struct Tr<POMDP::SparseModel<MDP::Model>>       { static constexpr bool pomdp = true, bsparse = false, osparse = true;  using Base = MDP::Model; };
template <> struct Tr<POMDP::SparseModel<MDP::SparseModel>> { static constexpr bool pomdp = true, bsparse = true,  osparse = true;  using Base = MDP::SparseModel; };

template <class M> static void kinds(Line & l) { l << (Tr<M>::bsparse ? "sparse" : "dense") << (Tr<M>::osparse ? "sparse" : "dense"); }

template <class M> static void dumpState(Line & l, const M & m) {
    const size_t S = m.getS(), A = m.getA(); size_t O = 0;
    if constexpr (Tr<M>::pomdp) O = m.getO();
    l << S << A << O << m.getDiscount();
    for (size_t a = 0; a < A; ++a) for (size_t s = 0; s < S; ++s) for (size_t s1 = 0; s1 < S; ++s1) l << (double)m.getTransitionFunction(a).coeff(s, s1);
    for (size_t s = 0; s < S; ++s) for (size_t a = 0; a < A; ++a) l << (double)m.getRewardFunction().coeff(s, a);
    if constexpr (Tr<M>::pomdp)
        for (size_t a = 0; a < A; ++a) for (size_t s1 = 0; s1 < S; ++s1) for (size_t o = 0; o < O; ++o) l << (double)m.getObservationFunction(a).coeff(s1, o);
}

// a model that is none of the library's classes: probabilities and rewards computed from plain tables,
// reward depending on s1 (what the generic copy constructors are documented to accept)
struct GenericMdp {
    size_t S, A; double d; V3 T, R;     // [s][a][s1]
    mutable RandomEngine rnd{7};
    size_t getS() const { return S; } size_t getA() const { return A; } double getDiscount() const { return d; }
    double getTransitionProbability(size_t s, size_t a, size_t s1) const { return T[s][a][s1]; }
    double getExpectedReward(size_t s, size_t a, size_t s1) const { return R[s][a][s1]; }
    std::tuple<size_t, double> sampleSR(size_t, size_t) const { return {0, 0.0}; }
    bool isTerminal(size_t) const { return false; }
};
struct GenericPomdp : GenericMdp {
    size_t O; V3 Om;                     // [s1][a][o]
    size_t getO() const { return O; }
    double getObservationProbability(size_t s1, size_t a, size_t o) const { return Om[s1][a][o]; }
    std::tuple<size_t, size_t, double> sampleSOR(size_t, size_t) const { return {0, 0, 0.0}; }
    std::tuple<size_t, double> sampleOR(size_t, size_t, size_t) const { return {0, 0.0}; }
};
static_assert(MDP::IsModel<GenericMdp>);
static_assert(POMDP::IsModel<GenericPomdp>);

template <class Src> static void dumpSrc(Line & l, const Src & m, bool pomdp) {
    const size_t S = m.getS(), A = m.getA();
    l << S << A << m.getDiscount();
    for (size_t s = 0; s < S; ++s) for (size_t a = 0; a < A; ++a) for (size_t s1 = 0; s1 < S; ++s1) l << (double)m.getTransitionProbability(s, a, s1);
    for (size_t s = 0; s < S; ++s) for (size_t a = 0; a < A; ++a) for (size_t s1 = 0; s1 < S; ++s1) l << (double)m.getExpectedReward(s, a, s1);
    if constexpr (requires { m.getO(); }) {
        if (pomdp) {
            l << m.getO();
            for (size_t s1 = 0; s1 < S; ++s1) for (size_t a = 0; a < A; ++a) for (size_t o = 0; o < m.getO(); ++o) l << (double)m.getObservationProbability(s1, a, o);
        }
    }
}

template <class Fn> static std::string guarded(Fn && fn) {
    try { fn(); return "none"; }
    catch (const std::exception & e) { return verif::errClass(e); }
}

// ------------------------------------------------------------------------------------------ constructors
struct Sizes { size_t S, A, O; };

template <class Base> static Base makeBaseNoCheck(size_t S, size_t A, const V3 & tASS, const V2 & rSA, double d) {
    if constexpr (std::is_same_v<Base, MDP::Model>) return MDP::Model(NO_CHECK, S, A, toDense3(tASS), toDense2(rSA), d);
    else return MDP::SparseModel(NO_CHECK, S, A, toSparse3(tASS), toSparse2(rSA), d);
}

template <class M> static std::unique_ptr<M> construct(Rng & rng, Sizes z) {
    constexpr bool P = Tr<M>::pomdp;
    using Base = typename Tr<M>::Base;
    const size_t S = z.S, A = z.A, O = z.O;
    std::unique_ptr<M> obj;
    g_sparseShape = (int)rng.below(4) % 3;
    int which = (int)rng.below(10);
    Line l; l << "C06" << "ctor"; kinds<M>(l); l << P;
    std::string err;
    if (which < 3) {                                   // basic
        double d = makeDiscount(rng, false);
        l << "basic" << S << A << d; if (P) l << O;
        if constexpr (P) err = guarded([&] { obj.reset(new M(O, S, A, d)); });
        else err = guarded([&] { obj.reset(new M(S, A, d)); });
        stat("ctor:basic");
    } else if (which < 5) {                            // 3D tables
        double d = makeDiscount(rng, true);
        V3 t = makeTable(rng, S, A, S, "ctorT"), r = makeRewards3(rng, S, A);
        l << "c3d" << S << A << d; put3(l, t); put3(l, r);
        if constexpr (P) {
            V3 of = makeTable(rng, S, A, O, "ctorO");
            l << O; put3(l, of);
            err = guarded([&] { obj.reset(new M(O, of, S, A, t, r, d)); });
        } else err = guarded([&] { obj.reset(new M(S, A, t, r, d)); });
        stat("ctor:3d");
    } else if (which < 6) {                            // NO_CHECK
        double d = makeDiscount(rng, true);
        V3 t = transposeXY(makeTable(rng, S, A, S, "nocheckT")); V2 r = makeRewards2(rng, S, A);
        l << "nocheck" << S << A << d; put3(l, t); put2(l, r);
        if constexpr (P) {
            V3 om = transposeXY(makeTable(rng, S, A, O, "nocheckO"));
            l << O; put3(l, om);
            err = guarded([&] {
                if constexpr (Tr<M>::osparse) { auto ot = toSparse3(om);
                    if constexpr (Tr<M>::bsparse) obj.reset(new M(NO_CHECK, O, std::move(ot), NO_CHECK, S, A, toSparse3(t), toSparse2(r), d));
                    else obj.reset(new M(NO_CHECK, O, std::move(ot), NO_CHECK, S, A, toDense3(t), toDense2(r), d));
                } else { auto ot = toDense3(om);
                    if constexpr (Tr<M>::bsparse) obj.reset(new M(NO_CHECK, O, std::move(ot), NO_CHECK, S, A, toSparse3(t), toSparse2(r), d));
                    else obj.reset(new M(NO_CHECK, O, std::move(ot), NO_CHECK, S, A, toDense3(t), toDense2(r), d));
                }
            });
        } else err = guarded([&] { obj.reset(new M(makeBaseNoCheck<Base>(S, A, t, r, d))); });
        stat("ctor:nocheck");
    } else {                                           // copy / conversion from another representation
        double d = makeDiscount(rng, true);
        V3 t = makeTable(rng, S, A, S, "copyT");       // [s][a][s1]
        int srcKind = (int)rng.below(3);               // 0 dense library model, 1 sparse library model, 2 generic
        // source of the very same class: that is the implicit C++ copy constructor (a clone), not a conversion
        constexpr bool sameAsDense = std::is_same_v<M, MDP::Model> || std::is_same_v<M, POMDP::Model<MDP::Model>>;
        constexpr bool sameAsSparse = std::is_same_v<M, MDP::SparseModel> || std::is_same_v<M, POMDP::SparseModel<MDP::SparseModel>>;
        const bool clone = (srcKind == 0 && sameAsDense) || (srcKind == 1 && sameAsSparse);
        l << (clone ? "clone" : "copy");
        if constexpr (P) {
            V3 om = makeTable(rng, S, A, O, "copyO");  // [s1][a][o]
            if (srcKind == 2) {
                GenericPomdp g; g.S = S; g.A = A; g.d = d; g.T = t; g.R = makeRewards3(rng, S, A); g.O = O; g.Om = om;
                dumpSrc(l, g, true); err = guarded([&] { obj.reset(new M(g)); }); stat("copy:from_generic");
            } else if (srcKind == 0) {
                POMDP::Model<MDP::Model> src(NO_CHECK, O, toDense3(transposeXY(om)), NO_CHECK, S, A, toDense3(transposeXY(t)), toDense2(makeRewards2(rng, S, A)), d);
                dumpSrc(l, src, true); err = guarded([&] { obj.reset(new M(src)); }); stat("copy:from_dense");
            } else {
                POMDP::SparseModel<MDP::SparseModel> src(NO_CHECK, O, toSparse3(transposeXY(om)), NO_CHECK, S, A, toSparse3(transposeXY(t)), toSparse2(makeRewards2(rng, S, A)), d);
                dumpSrc(l, src, true); err = guarded([&] { obj.reset(new M(src)); }); stat("copy:from_sparse");
            }
        } else {
            if (srcKind == 2) {
                GenericMdp g; g.S = S; g.A = A; g.d = d; g.T = t; g.R = makeRewards3(rng, S, A);
                dumpSrc(l, g, false); err = guarded([&] { obj.reset(new M(g)); }); stat("copy:from_generic");
            } else if (srcKind == 0) {
                MDP::Model src(NO_CHECK, S, A, toDense3(transposeXY(t)), toDense2(makeRewards2(rng, S, A)), d);
                dumpSrc(l, src, false); err = guarded([&] { obj.reset(new M(src)); }); stat("copy:from_dense");
            } else {
                MDP::SparseModel src(NO_CHECK, S, A, toSparse3(transposeXY(t)), toSparse2(makeRewards2(rng, S, A)), d);
                dumpSrc(l, src, false); err = guarded([&] { obj.reset(new M(src)); }); stat("copy:from_sparse");
            }
        }
    }
    l << "|" << err;
    if (obj) dumpState(l, *obj);
    l.emit();
    stat(std::string("ctor_outcome:") + err);
    g_sparseShape = 0;
    return obj;
}

// ------------------------------------------------------------------------------------------ setters
template <class M> static void oneOp(Rng & rng, M & m) {
    constexpr bool P = Tr<M>::pomdp;
    g_sparseShape = (int)rng.below(4) % 3;
    if constexpr (Tr<M>::bsparse || Tr<M>::osparse) stat(std::string("sparse_input_shape:") + (g_sparseShape == 0 ? "compressed" : g_sparseShape == 1 ? "explicit_zeros" : "uncompressed"));
    const size_t S = m.getS(), A = m.getA(); size_t O = 0;
    if constexpr (P) O = m.getO();
    Line l; l << "C06" << "op"; kinds<M>(l);
    int nops = P ? 7 : 5;
    int op = (int)rng.below(nops);
    Line args; std::string name, err;
    switch (op) {
        case 0: { double d = makeDiscount(rng, false); name = "setDiscount"; args << d; l << name; dumpState(l, m);
                  err = guarded([&] { m.setDiscount(d); }); break; }
        case 1: { V3 t = makeTable(rng, S, A, S, "setT3D"); name = "setT3D"; put3(args, t); l << name; dumpState(l, m);
                  err = guarded([&] { m.setTransitionFunction(t); }); break; }
        case 2: { V3 t = transposeXY(makeTable(rng, S, A, S, "setTEigen")); name = "setTEigen"; put3(args, t); l << name; dumpState(l, m);
                  if constexpr (Tr<M>::bsparse) { auto e = toSparse3(t); err = guarded([&] { m.setTransitionFunction(e); }); }
                  else { auto e = toDense3(t); err = guarded([&] { m.setTransitionFunction(e); }); }
                  break; }
        case 3: { V3 r = makeRewards3(rng, S, A); name = "setR3D"; put3(args, r); l << name; dumpState(l, m);
                  err = guarded([&] { m.setRewardFunction(r); }); break; }
        case 4: { V2 r = makeRewards2(rng, S, A); name = "setREigen"; put2(args, r); l << name; dumpState(l, m);
                  if constexpr (Tr<M>::bsparse) { auto e = toSparse2(r); err = guarded([&] { m.setRewardFunction(e); }); }
                  else { auto e = toDense2(r); err = guarded([&] { m.setRewardFunction(e); }); }
                  break; }
        case 5: { if constexpr (P) { V3 o = makeTable(rng, S, A, O, "setO3D"); name = "setO3D"; put3(args, o); l << name; dumpState(l, m);
                  err = guarded([&] { m.setObservationFunction(o); }); } break; }
        case 6: { if constexpr (P) { V3 o = transposeXY(makeTable(rng, S, A, O, "setOEigen")); name = "setOEigen"; put3(args, o); l << name; dumpState(l, m);
                  if constexpr (Tr<M>::osparse) { auto e = toSparse3(o); err = guarded([&] { m.setObservationFunction(e); }); }
                  else { auto e = toDense3(o); err = guarded([&] { m.setObservationFunction(e); }); } } break; }
    }
    l << "|"; if (!args.first) l << args.os.str(); l << "|" << err; dumpState(l, m);
    l.emit();
    g_sparseShape = 0;
    stat("op:" + name); stat("op_outcome:" + err);
}

// the two views of one object must agree: tables (getTransitionFunction / getRewardFunction / getObservationFunction) against
// the generic interface every algorithm and every converting constructor reads (getTransitionProbability /
// getExpectedReward / getObservationProbability):   C06 acc <kb> <ko> <pomdp> <state> | <generic view>
template <class M> static void accLine(const M & m) {
    Line l; l << "C06" << "acc"; kinds<M>(l); l << Tr<M>::pomdp; dumpState(l, m); l << "|"; dumpSrc(l, m, Tr<M>::pomdp); l.emit();
    stat("acc:lines");
}

template <class M> static void historyCase(Rng & rng, const std::string & tier) {
    Sizes z{(size_t)rng.range(1, 4), (size_t)rng.range(1, 3), (size_t)rng.range(1, 3)};
    std::unique_ptr<M> obj = construct<M>(rng, z);
    if (!obj) {   // rejected constructor: continue the history on a default object
        if constexpr (Tr<M>::pomdp) obj.reset(new M(z.O, z.S, z.A, 0.5)); else obj.reset(new M(z.S, z.A, 0.5));
    }
    int n = (int)rng.range(2, tier == "thorough" ? 40 : 12);
    accLine(*obj);
    for (int i = 0; i < n; ++i) { oneOp(rng, *obj); if (i == n / 2 || i + 1 == n) accLine(*obj); }
}


// ------------------------------------------------------------------------------------------ loaders (src/MDP/IO.cpp)
//   C06 load <kb> <pre-state> | <cut> <d> T[a][s][s1] R[s][a] | <err> <failbit> <post-state>
// The text is what operator<< would have written for (d, T, R) — candidates of every kind, non-finite values print as nan/inf and
// stop the reader there — possibly cut (1: inside the transition function, 2: inside the reward function, 3: empty stream).
template <class M> static void loadCase(Rng & rng) {
    constexpr bool sp = Tr<M>::bsparse;
    Sizes z{(size_t)rng.range(1, 4), (size_t)rng.range(1, 3), 0};
    std::unique_ptr<M> obj = construct<M>(rng, z);
    if (!obj) obj.reset(new M(z.S, z.A, 0.5));
    const size_t S = z.S, A = z.A;
    for (int rep = (int)rng.range(1, 3); rep > 0; --rep) {
        const double d = makeDiscount(rng, true);
        const V3 t = transposeXY(makeTable(rng, S, A, S, "loadT"));      // [a][s][s1]
        const V2 r = makeRewards2(rng, S, A);
        const int cut = rng.coin(1, 4) ? 1 + (int)rng.below(3) : 0;
        std::ostringstream os; os.precision(17);
        // one section; `cutIt` drops its last token (dense: the last number; sparse: the last triplet, or the count when there is none)
        auto denseSection = [&](const V2 & mtx, bool cutIt) {
            size_t total = 0; for (auto & row : mtx) total += row.size();
            size_t n = 0; for (auto & row : mtx) { for (double x : row) { if (cutIt && ++n == total) return; os << x << ' '; } os << '\n'; } os << '\n'; };
        auto sparseSection = [&](const V2 & mtx, bool cutIt) {
            std::vector<std::tuple<size_t, size_t, double>> tr;
            size_t cells = 0;      // the reader refuses more triplets than the matrix has cells: a duplicate needs a cell skipped earlier
            for (size_t i = 0; i < mtx.size(); ++i) for (size_t j = 0; j < mtx[i].size(); ++j) {
                const double x = mtx[i][j]; ++cells;
                if (x == 0.0) { if (rng.coin(1, 6)) tr.push_back({i, j, 0.0}); continue; }           // an explicitly stored zero
                if (std::isfinite(x) && tr.size() + 2 <= cells && rng.coin(1, 3)) { tr.push_back({i, j, x / 2}); tr.push_back({i, j, x / 2}); stat("load:duplicate_triplet"); }   // duplicates are summed
                else tr.push_back({i, j, x});
            }
            if (cutIt && tr.empty()) return;
            os << tr.size() << '\n';
            size_t n = 0; for (auto & [i, j, x] : tr) { if (cutIt && ++n == tr.size()) return; os << i << ' ' << j << ' ' << x << '\n'; }
        };
        if (cut != 3) {
            os << d << '\n';
            for (size_t a = 0; a < A; ++a) { const bool c = cut == 1 && a + 1 == A; if (sp) sparseSection(t[a], c); else denseSection(t[a], c); }
            if (cut != 1) { if (sp) sparseSection(r, cut == 2); else denseSection(r, cut == 2); }
        }
        Line l; l << "C06" << "load" << (sp ? "sparse" : "dense"); dumpState(l, *obj);
        l << "|" << (size_t)cut << d; put3(l, t); put2(l, r);
        std::istringstream is(os.str());
        std::string err = guarded([&] { is >> *obj; });
        l << "|" << err << is.fail(); dumpState(l, *obj); l.emit();
        stat(std::string("load:") + (err != "none" ? err : is.fail() ? "failbit" : "loaded")); stat("load_cut:" + std::to_string(cut));
    }
}

// ------------------------------------------------------------------------------------------ isProbability, three implementations
static void isprobCase(Rng & rng) {
    size_t n = (size_t)rng.range(1, 5);
    for (int k = 0; k < N_KINDS; ++k) {
        V1 row = makeRow(rng, n, k);
        Matrix2D d(1, n); for (size_t i = 0; i < n; ++i) d(0, i) = row[i];
        SparseMatrix2D s = toSparse2(V2{row});
        Line l; l << "C06" << "isprob" << n; for (double x : row) l << x;
        l << "|" << isProbability(n, row) << isProbability(d) << isProbability(s);
        l.emit();
    }
}

// ------------------------------------------------------------------------------------------ setDiscount siblings
template <class T> static void discLine(const char * file, const char * cls, T & obj, double d) {
    Line l; l << "C06" << "disc" << file << cls << d << obj.getDiscount();
    std::string err = guarded([&] { obj.setDiscount(d); });
    l << "|" << err << obj.getDiscount();
    l.emit();
}
static F::DDNGraph smallGraph() {
    F::DDNGraph g(F::State{2, 2}, F::Action{2});
    for (size_t i = 0; i < 2; ++i) { F::DDNGraph::ParentSet ps; ps.agents = {0}; ps.features = {{0}, {0, 1}}; g.push(std::move(ps)); }
    return g;
}
static void discCase(Rng & rng) {
    static const double all[] = {-1.0, 0.0, -0.0, 1e-9, 0.5, 1.0, 1.0 + 1e-9, 2.0, NaN, Inf, -Inf};
    MDP::Experience e(2, 2); MDP::SparseExperience se(2, 2);
    MDP::MaximumLikelihoodModel<MDP::Experience> ml(e, 0.5, false);
    MDP::SparseMaximumLikelihoodModel<MDP::SparseExperience> sml(se, 0.5, false);
    MDP::ThompsonModel<MDP::Experience> th(e, 0.5);
    auto g = smallGraph();
    FM::CooperativeExperience ce(g);
    FM::CooperativeMaximumLikelihoodModel cml(ce, 0.5, false);
    FM::CooperativeThompsonModel cth(ce, 0.5);
    for (double d : all) {
        discLine("include/AIToolbox/MDP/MaximumLikelihoodModel.hpp", "MaximumLikelihoodModel", ml, d);
        discLine("include/AIToolbox/MDP/SparseMaximumLikelihoodModel.hpp", "SparseMaximumLikelihoodModel", sml, d);
        discLine("include/AIToolbox/MDP/ThompsonModel.hpp", "ThompsonModel", th, d);
        discLine("src/Factored/MDP/CooperativeMaximumLikelihoodModel.cpp", "CooperativeMaximumLikelihoodModel", cml, d);
        discLine("src/Factored/MDP/CooperativeThompsonModel.cpp", "CooperativeThompsonModel", cth, d);
    }
    (void)rng;
}

// ------------------------------------------------------------------------------------------ AMDP
template <bool Sparse> static void amdpCase(Rng & rng, long idx, size_t forceS = 0, size_t forceBuckets = 0) {
    size_t S = (size_t)rng.range(1 + (idx % 5 != 0), 4), A = (size_t)rng.range(1, 3), O = (size_t)rng.range(1, 3);
    if (forceS) S = forceS;
    auto pt = verif::randomPomdp(rng, S, A, O);
    auto model = verif::toDense(pt);
    const auto model2 = model;     // same internal generator state: BeliefGenerator samples through the model
    size_t nBeliefs = (size_t)rng.range(1, 8), buckets = (size_t)rng.range(1, 8);
    if (forceBuckets) buckets = forceBuckets;
    unsigned seed = (unsigned)rng.below(1u << 30);
    POMDP::AMDP amdp(nBeliefs, buckets);
    const size_t S1 = S * buckets;
    Line l; l << "C06" << "amdp" << (Sparse ? "sparse" : "dense") << S1 << A;
    Seeder::setRootSeed(seed);
    auto result = [&] { if constexpr (Sparse) return amdp.discretizeSparse(model); else return amdp.discretizeDense(model); }();
    const auto & mdp = std::get<0>(result); const auto & disc = std::get<1>(result);
    // the same beliefs again (the generator inside discretize* was seeded by the first Seeder draw)
    Seeder::setRootSeed(seed);
    POMDP::BeliefGenerator<decltype(model)> bGen(model2);
    const auto beliefs = bGen(nBeliefs);
    Line ev; size_t nev = 0;
    POMDP::Belief b1(S);
    for (const auto & b : beliefs) {
        const size_t s = disc(b);
        for (size_t a = 0; a < A; ++a) {
            const double r = POMDP::beliefExpectedReward(model, b, a);
            for (size_t o = 0; o < O; ++o) {
                POMDP::updateBeliefUnnormalized(model, b, a, o, &b1);
                const double p = b1.sum();
                size_t s1 = 0;
                if (p > 1e-7) { POMDP::Belief bn = b1 / p; s1 = disc(bn); }
                ev << s << a << s1 << p << r; ++nev;
            }
        }
    }
    l << nev; if (nev) l << ev.os.str();
    l << "|" << mdp.getS() << mdp.getA() << mdp.getDiscount();
    for (size_t a = 0; a < A; ++a) for (size_t s = 0; s < S1; ++s) for (size_t s1 = 0; s1 < S1; ++s1) l << (double)mdp.getTransitionFunction(a).coeff(s, s1);
    for (size_t s = 0; s < S1; ++s) for (size_t a = 0; a < A; ++a) l << (double)mdp.getRewardFunction().coeff(s, a);
    l << pt.discount;
    // the discretizer itself: every sampled belief with the bucket it is sent to (S, buckets, then belief + index)
    l << "|" << S << buckets << (size_t)beliefs.size();
    for (const auto & b : beliefs) { for (size_t x = 0; x < S; ++x) l << (double)b[x]; l << disc(b); }
    l.emit();
    stat(Sparse ? "amdp:sparse" : "amdp:dense");
}

// AMDP with NO entropy bucket (the quantifier ranges over all bucket counts): there is no augmented state space at all, so the
// request must be rejected with an exception that leaves the AMDP object as it was — or yield a valid model; it must never write
// outside the tables.      C06 amdp0 <dense|sparse> <ctor|setEntropyBuckets> | <err> <buckets after> <S of the result>
static void amdpZeroBucketsCase() {
    for (int sparse = 0; sparse < 2; ++sparse) for (int viaSetter = 0; viaSetter < 2; ++viaSetter) {
        Line l; l << "C06" << "amdp0" << (sparse ? "sparse" : "dense") << (viaSetter ? "setEntropyBuckets" : "ctor");
        size_t S1 = 0, after = viaSetter ? 3 : 0;
        std::unique_ptr<POMDP::AMDP> amdp;
        std::string err = guarded([&] {
            amdp.reset(new POMDP::AMDP(4, viaSetter ? 3 : 0));
            if (viaSetter) amdp->setEntropyBuckets(0);
            POMDP::Model<MDP::Model> model(2, 2, 2, 0.5);
            if (sparse) { auto r = amdp->discretizeSparse(model); S1 = std::get<0>(r).getS(); }
            else { auto r = amdp->discretizeDense(model); S1 = std::get<0>(r).getS(); }
        });
        if (amdp) after = amdp->getEntropyBuckets();
        l << "|" << err << after << S1; l.emit();
        stat(std::string("amdp0:") + err);
    }
}

// ------------------------------------------------------------------------------------------ DDNGraph::push / CooperativeModel
static void putTag(Line & l, const F::PartialKeys & k) { l << (size_t)k.size(); for (auto x : k) l << (size_t)x; }
static void dumpGraph(Line & l, const F::DDNGraph & g) {
    const auto & ps = g.getParentSets();
    l << (size_t)ps.size();
    for (size_t i = 0; i < ps.size(); ++i) {
        putTag(l, ps[i].agents); l << (size_t)ps[i].features.size();
        for (auto & f : ps[i].features) putTag(l, f);
        l << g.getSize(i);
    }
}
static F::PartialKeys randTag(Rng & rng, size_t space, int bad) {
    F::PartialKeys k;
    for (size_t i = 0; i < space; ++i) if (rng.coin()) k.push_back(i);
    if (k.empty()) k.push_back(rng.below(space));
    switch (bad) {
        case 1: k.clear(); break;                                            // no elements
        case 2: while (k.size() <= space) k.push_back(k.back()); break;      // too many
        case 3: k.back() = space + rng.below(3); break;                      // id too high
        case 4: if (k.size() > 1) std::swap(k[0], k[1]); else k = {1 % space, 0}; if (k.size() == 2 && k[0] <= k[1]) k = {k[1] + 0, k[0]}; break; // not sorted
        case 5: k.push_back(k.back()); break;                                // duplicate
        default: break;
    }
    return k;
}
static void pushCase(Rng & rng) {
    size_t nf = (size_t)rng.range(1, 3), na = (size_t)rng.range(1, 2);
    F::State S(nf); for (auto & x : S) x = (size_t)rng.range(2, 3);
    F::Action A(na); for (auto & x : A) x = (size_t)rng.range(1, 3);
    F::DDNGraph g(S, A);
    int pushes = (int)nf + 2;
    for (int p = 0; p < pushes; ++p) {
        F::DDNGraph::ParentSet ps;
        int badWhere = (int)rng.below(5);     // 0,1: fine; 2: agents tag bad; 3: a feature tag bad; 4: wrong number of feature sets
        ps.agents = randTag(rng, na, badWhere == 2 ? (int)rng.range(1, 5) : 0);
        size_t nj = 1; bool agentsOk = badWhere != 2;
        if (agentsOk) nj = F::factorSpacePartial(ps.agents, A);
        if (badWhere == 4) nj += 1 + rng.below(2);
        size_t badJ = rng.below(nj);
        for (size_t j = 0; j < nj; ++j) ps.features.push_back(randTag(rng, nf, (badWhere == 3 && j == badJ) ? (int)rng.range(1, 5) : 0));
        Line l; l << "C06" << "push"; l.nats(S); l.nats(A); dumpGraph(l, g);
        l << "|"; putTag(l, ps.agents); l << (size_t)ps.features.size(); for (auto & f : ps.features) putTag(l, f);
        std::string err = guarded([&] { g.push(ps); });
        l << "|" << err; dumpGraph(l, g);
        l.emit();
        stat("push:" + err);
    }
}

// ------------------------------------------------------------------------------------------ what an accepted CooperativeModel does with its tables
//   C06 coopdyn | S A graph | nT (rows cols entries)* | nB (tag actionTag rows cols values)* |
//               (size psize (parentId actionId getId(parentId,actionId) getPartialSize(actionId))*size)*|S| |
//               nQ (s a viaCopy reward (p pPartialFactors)*|space(S)|)*
// graph, ids and probabilities are read from the OBJECT (getGraph / getTransitionFunction / getTransitionProbability /
// getExpectedReward); half of the queries go through a copy-constructed model after the original was destroyed.
static void coopDynLine(Rng & rng, std::unique_ptr<FM::CooperativeModel> & obj, const F::State & S, const F::Action & A,
                        const F::DDN::TransitionMatrix & tm, const F::FactoredMatrix2D & rw) {
    Line l; l << "C06" << "coopdyn" << "|"; l.nats(S); l.nats(A); dumpGraph(l, obj->getGraph());
    l << "|" << (size_t)tm.size();
    for (auto & m : tm) { l << (size_t)m.rows() << (size_t)m.cols(); for (long j = 0; j < m.rows(); ++j) for (long x = 0; x < m.cols(); ++x) l << (double)m(j, x); }
    l << "|" << (size_t)rw.bases.size();
    for (auto & b : rw.bases) { putTag(l, b.tag); putTag(l, b.actionTag); l << (size_t)b.values.rows() << (size_t)b.values.cols();
        for (long x = 0; x < b.values.rows(); ++x) for (long y = 0; y < b.values.cols(); ++y) l << (double)b.values(x, y); }
    l << "|";
    const auto & g = obj->getGraph();
    for (size_t i = 0; i < S.size(); ++i) {
        l << g.getSize(i) << g.getPartialSize(i);
        for (size_t j = 0; j < g.getSize(i); ++j) { auto [pid, aid] = g.getIds(i, j); l << pid << aid << g.getId(i, pid, aid) << g.getPartialSize(i, aid); }
    }
    l << "|";
    size_t nS = 1, nA = 1; for (auto x : S) nS *= x; for (auto x : A) nA *= x;
    auto nth = [](const F::Factors & sp, size_t k) { F::Factors f(sp.size()); for (size_t q = sp.size(); q-- > 0;) { f[q] = k % sp[q]; k /= sp[q]; } return f; };   // last factor fastest
    std::vector<std::pair<size_t, size_t>> qs;
    if (nS * nA <= 12) { for (size_t x = 0; x < nS; ++x) for (size_t y = 0; y < nA; ++y) qs.push_back({x, y}); }
    else for (int q = 0; q < 8; ++q) qs.push_back({rng.below(nS), rng.below(nA)});
    std::unique_ptr<FM::CooperativeModel> copy(new FM::CooperativeModel(*obj));
    l << (size_t)qs.size();
    for (size_t qi = 0; qi < qs.size(); ++qi) {
        const bool viaCopy = qi * 2 >= qs.size();
        if (viaCopy && obj) obj.reset();                 // the copy must not depend on the original (DDN holds a reference to the graph)
        const FM::CooperativeModel & m = viaCopy ? *copy : *obj;
        F::State s = nth(S, qs[qi].first); F::Action a = nth(A, qs[qi].second);
        for (auto x : s) l << (size_t)x; for (auto x : a) l << (size_t)x;
        l << viaCopy << m.getExpectedReward(s, a, s);
        const auto ps = F::toPartialFactors(s), pa = F::toPartialFactors(a);
        for (size_t k = 0; k < nS; ++k) {
            F::State s1 = nth(S, k);
            l << m.getTransitionProbability(s, a, s1) << m.getTransitionFunction().getTransitionProbability(ps, pa, F::toPartialFactors(s1));
        }
        // a marginal: the PartialFactors overload on a non-empty, possibly non-prefix subset of the next-state features
        F::PartialFactors sub;
        for (size_t q = 0; q < S.size(); ++q) if (rng.coin()) { sub.first.push_back(q); sub.second.push_back(rng.below(S[q])); }
        if (sub.first.empty()) { size_t q = S.size() - 1 - rng.below(std::min<size_t>(2, S.size())); sub.first.push_back(q); sub.second.push_back(rng.below(S[q])); }
        l << (size_t)sub.first.size(); for (auto x : sub.first) l << (size_t)x; for (auto x : sub.second) l << (size_t)x;
        l << m.getTransitionFunction().getTransitionProbability(ps, pa, sub);
        if (sub.first[0] != 0) stat("coopdyn:marginal_non_prefix");
    }
    l.emit();
    stat("coopdyn:lines"); stat("coopdyn:queries", (long)qs.size()); stat("coopdyn:features_" + std::to_string(S.size()));
    obj.reset(copy.release());
}
static void coopCase(Rng & rng, int force = 0) {   // force: 1 = well-formed arguments with discount 2.0, 2 = with NaN
    // CooperativeModel constructor: graph (possibly incomplete), transition matrices (count / shape / rows possibly wrong),
    // reward bases (tags / shapes possibly wrong), discount candidate.  Everything the constructor validates.
    size_t nf = (size_t)rng.range(1, 3), na = (size_t)rng.range(1, 2);
    F::State S(nf); for (auto & x : S) x = (size_t)rng.range(2, 3);
    F::Action A(na); for (auto & x : A) x = (size_t)rng.range(1, 3);
    F::DDNGraph g(S, A);
    size_t pushes = (!force && rng.coin(1, 8)) ? nf - 1 : nf;          // sometimes a node is missing
    for (size_t i = 0; i < pushes; ++i) {
        F::DDNGraph::ParentSet ps;
        ps.agents = randTag(rng, na, 0);
        size_t nj = F::factorSpacePartial(ps.agents, A);
        for (size_t j = 0; j < nj; ++j) ps.features.push_back(randTag(rng, nf, 0));
        g.push(std::move(ps));
    }
    double d = force == 1 ? 2.0 : force == 2 ? NaN : makeDiscount(rng, true);
    Line l; l << "C06" << "coop" << d << "|"; l.nats(S); l.nats(A); dumpGraph(l, g);
    // transitions
    int tmode = force ? 7 : (int)rng.below(8);      // 0 wrong count, 1 wrong rows, 2 wrong cols, 3 bad row, else fine
    size_t nT = nf; if (tmode == 0) nT = rng.coin() ? nf + 1 : nf - 1;
    size_t badI = rng.below(nf);
    F::DDN::TransitionMatrix tm;
    l << "|" << nT;
    for (size_t i = 0; i < nT; ++i) {
        size_t rows = i < pushes ? g.getSize(i) : (size_t)rng.range(1, 3), cols = i < nf ? S[i] : 2;
        if (tmode == 1 && i == badI) rows += 1;
        if (tmode == 2 && i == badI) cols += 1;
        Matrix2D m(rows, cols);
        l << rows << cols;
        size_t badRow = rng.below(rows);
        const bool padZero = rng.coin();
        for (size_t j = 0; j < rows; ++j) {
            V1 row = makeRow(rng, cols, (tmode == 3 && i == badI && j == badRow) ? N_GOOD + (int)rng.below(N_KINDS - N_GOOD) : (int)rng.below(3));
            if (tmode == 2 && i == badI && padZero) { row = makeRow(rng, cols - 1, (int)rng.below(2)); row.push_back(0.0); }   // extra column of zeros
            for (size_t x = 0; x < cols; ++x) { m(j, x) = row[x]; l << row[x]; }
        }
        tm.push_back(m);
    }
    // reward bases
    F::FactoredMatrix2D rw;
    size_t nB = rng.below(3);
    int bmode = force ? 7 : (int)rng.below(8);      // 0 action tag bad, 1 state tag bad, 2 wrong cols, 3 wrong rows, else fine
    size_t badB = nB ? rng.below(nB) : 0;
    l << "|" << nB;
    for (size_t b = 0; b < nB; ++b) {
        F::BasisMatrix bm;
        bool bad = b == badB;
        bm.actionTag = randTag(rng, na, (bad && bmode == 0) ? (int)rng.range(1, 5) : 0);
        bm.tag = randTag(rng, nf, (bad && bmode == 1) ? (int)rng.range(1, 5) : 0);
        auto safeSpace = [](const F::PartialKeys & k, const F::Factors & sp) { size_t r = 1; for (auto x : k) r *= x < sp.size() ? sp[x] : 2; return r; };
        size_t cols = safeSpace(bm.actionTag, A) + ((bad && bmode == 2) ? 1 : 0);
        size_t rows = safeSpace(bm.tag, S) + ((bad && bmode == 3) ? 1 : 0);
        bm.values = Matrix2D::Zero(rows, cols);
        for (size_t x = 0; x < rows; ++x) for (size_t y = 0; y < cols; ++y) bm.values(x, y) = verif::dyadicReward(rng);
        putTag(l, bm.tag); putTag(l, bm.actionTag); l << rows << cols;
        rw.bases.push_back(bm);
    }
    std::unique_ptr<FM::CooperativeModel> obj;
    std::string err = guarded([&] { obj.reset(new FM::CooperativeModel(g, tm, rw, d)); });
    l << "|" << err;
    if (obj) {
        l << obj->getDiscount();
        for (size_t i = 0; i < nf; ++i) { const auto & m = obj->getTransitionFunction().transitions[i]; for (long j = 0; j < m.rows(); ++j) for (long x = 0; x < m.cols(); ++x) l << (double)m(j, x); }
    }
    l.emit();
    if (obj) coopDynLine(rng, obj, S, A, tm, rw);
    stat("coop:" + err); stat("coop_tmode:" + std::to_string(tmode > 3 ? 4 : tmode)); if (nB) stat("coop_bmode:" + std::to_string(bmode > 3 ? 4 : bmode));
}

// ------------------------------------------------------------------------------------------ learned / factored models derived by the library
//   C06 lm <file> <class> <op> <arg> <discount before> | <err> <discount after> <nrows> (len entries…)*
template <class M> static void lmRowsFlat(Line & l, const M & m) {
    const size_t S = m.getS(), A = m.getA();
    l << S * A;
    for (size_t s = 0; s < S; ++s) for (size_t a = 0; a < A; ++a) { l << S; for (size_t s1 = 0; s1 < S; ++s1) l << (double)m.getTransitionProbability(s, a, s1); }
}
template <class M> static void lmRowsCoop(Line & l, const M & m) {
    const auto & tr = m.getTransitionFunction().transitions;
    size_t n = 0; for (auto & t : tr) n += t.rows();
    l << n;
    for (auto & t : tr) for (long j = 0; j < t.rows(); ++j) { l << (size_t)t.cols(); for (long x = 0; x < t.cols(); ++x) l << (double)t(j, x); }
}
template <class M, class Rows, class Fn> static void lmOp(const char * file, const char * cls, const char * op, double arg, M & m, Rows rows, Fn && fn) {
    Line l; l << "C06" << "lm" << file << cls << op << arg << m.getDiscount();
    std::string err = guarded(fn);
    l << "|" << err << m.getDiscount(); rows(l, m); l.emit();
    stat(std::string("lm:") + op + ":" + err);
}
template <class M, class Make> static std::unique_ptr<M> lmCtor(const char * file, const char * cls, double d, Make && make) {
    std::unique_ptr<M> m;
    Line l; l << "C06" << "lm" << file << cls << "ctor" << d << 0.0;
    std::string err = guarded([&] { m = make(d); });
    l << "|" << err << (m ? m->getDiscount() : 0.0);
    return (l << (size_t)0, l.emit(), stat(std::string("lm:ctor:") + err), std::move(m));
}
template <class E, class M> static void learnedFlat(Rng & rng, const char * file, const char * cls, bool hasSyncSA) {
    size_t S = (size_t)rng.range(1, 4), A = (size_t)rng.range(1, 3);
    E exp(S, A);
    auto rec = [&] { exp.record(rng.below(S), rng.below(A), rng.below(S), verif::dyadicReward(rng)); };
    for (int i = (int)rng.below(6); i > 0; --i) rec();
    auto m = lmCtor<M>(file, cls, makeDiscount(rng, false), [&](double d) { if constexpr (std::is_constructible_v<M, const E &, double, bool>) return std::make_unique<M>(exp, d, rng.coin()); else return std::make_unique<M>(exp, d); });
    if (!m) m = lmCtor<M>(file, cls, 0.75, [&](double d) { if constexpr (std::is_constructible_v<M, const E &, double, bool>) return std::make_unique<M>(exp, d, true); else return std::make_unique<M>(exp, d); });
    auto rows = [](Line & l, const M & mm) { lmRowsFlat(l, mm); };
    for (int i = (int)rng.range(3, 10); i > 0; --i) {
        switch (rng.below(5)) {
            case 4: exp.reset(); lmOp(file, cls, "resetSync", 0.0, *m, rows, [&] { m->sync(); }); break;
            case 0: { double d = makeDiscount(rng, false); lmOp(file, cls, "setDiscount", d, *m, rows, [&] { m->setDiscount(d); }); break; }
            case 1: rec(); rec(); lmOp(file, cls, "record", 0.0, *m, rows, [&] {}); break;
            case 2: lmOp(file, cls, "sync", 0.0, *m, rows, [&] { m->sync(); }); break;
            case 3: { size_t s = rng.below(S), a = rng.below(A); exp.record(s, a, rng.below(S), 0.5);
                      lmOp(file, cls, "syncSA", 0.0, *m, rows, [&] { if (hasSyncSA) m->sync(s, a); else m->sync(); }); break; }
        }
    }
}
template <class M> static void learnedCoop(Rng & rng, const char * file, const char * cls, bool mle) {
    auto g = smallGraph();
    FM::CooperativeExperience exp(g);
    const auto & S = g.getS(); const auto & A = g.getA();
    auto rec = [&] { F::State s(S.size()), s1(S.size()); F::Action a(A.size());
        for (size_t q = 0; q < S.size(); ++q) { s[q] = rng.below(S[q]); s1[q] = rng.below(S[q]); }
        for (size_t q = 0; q < A.size(); ++q) a[q] = rng.below(A[q]);
        F::Rewards rw(S.size()); for (auto & x : rw) x = verif::dyadicReward(rng);
        exp.record(s, a, s1, rw); };
    for (int i = (int)rng.below(6); i > 0; --i) rec();
    auto make = [&](double d) { if constexpr (std::is_constructible_v<M, const FM::CooperativeExperience &, double, bool>) return std::make_unique<M>(exp, d, rng.coin()); else return std::make_unique<M>(exp, d); };
    auto m = lmCtor<M>(file, cls, makeDiscount(rng, false), make);
    if (!m) m = lmCtor<M>(file, cls, 0.75, make);
    auto rows = [](Line & l, const M & mm) { lmRowsCoop(l, mm); };
    for (int i = (int)rng.range(3, 8); i > 0; --i) {
        switch (rng.below(4)) {
            case 3: exp.reset(); lmOp(file, cls, "resetSync", 0.0, *m, rows, [&] { m->sync(); }); break;
            case 0: { double d = makeDiscount(rng, false); lmOp(file, cls, "setDiscount", d, *m, rows, [&] { m->setDiscount(d); }); break; }
            case 1: rec(); rec(); lmOp(file, cls, "record", 0.0, *m, rows, [&] {}); break;
            case 2: lmOp(file, cls, "sync", 0.0, *m, rows, [&] { m->sync(); }); break;
        }
    }
    (void)mle;
}
static void learnedCase(Rng & rng) {
    learnedFlat<MDP::Experience, MDP::MaximumLikelihoodModel<MDP::Experience>>(rng, "include/AIToolbox/MDP/MaximumLikelihoodModel.hpp", "MaximumLikelihoodModel", true);
    learnedFlat<MDP::SparseExperience, MDP::SparseMaximumLikelihoodModel<MDP::SparseExperience>>(rng, "include/AIToolbox/MDP/SparseMaximumLikelihoodModel.hpp", "SparseMaximumLikelihoodModel", true);
    learnedFlat<MDP::Experience, MDP::ThompsonModel<MDP::Experience>>(rng, "include/AIToolbox/MDP/ThompsonModel.hpp", "ThompsonModel", true);
    learnedCoop<FM::CooperativeMaximumLikelihoodModel>(rng, "src/Factored/MDP/CooperativeMaximumLikelihoodModel.cpp", "CooperativeMaximumLikelihoodModel", true);
    learnedCoop<FM::CooperativeThompsonModel>(rng, "src/Factored/MDP/CooperativeThompsonModel.cpp", "CooperativeThompsonModel", false);
}

// ------------------------------------------------------------------------------------------ conversion chains
// one converting-constructor call  Target(src)  as a `ctor … copy` line; returns the object (null when rejected)
template <class Target, class Src> static std::unique_ptr<Target> convertLine(const Src & src) {
    std::unique_ptr<Target> obj;
    Line l; l << "C06" << "ctor"; kinds<Target>(l); l << false << "copy";
    dumpSrc(l, src, false);
    std::string err = guarded([&] { obj.reset(new Target(src)); });
    l << "|" << err; if (obj) dumpState(l, *obj); l.emit();
    stat(std::string("chain_step:") + err);
    return obj;
}
// a valid row with k entries below the storage threshold
static V1 manySubRow(Rng & rng, size_t n, size_t k, double eps) {
    V1 r(n, 0.0);
    size_t big = rng.below(n);
    for (size_t i = 0, c = 0; i < n && c < k; ++i) if (i != big) { r[i] = eps; ++c; }
    double rest = 1.0; for (size_t i = 0; i < n; ++i) if (i != big) rest -= r[i];
    if (n > k + 1 && rng.coin()) { size_t j = (big + 1) % n; while (r[j] != 0.0) j = (j + 1) % n; if (j != big) { r[j] = 0.25; rest -= 0.25; } }
    r[big] = rest;
    return r;
}
// generic (user-defined, probability-query-only) -> dense -> sparse -> dense, and generic -> sparse
static void chainCase(Rng & rng) {
    size_t S = (size_t)rng.range(3, 40), A = (size_t)rng.range(1, 2);
    static const double epss[] = {9e-7, 4e-7, 1e-7, 2.5e-7};
    GenericMdp g; g.S = S; g.A = A; g.d = makeDiscount(rng, true);
    g.T.assign(S, V2(A)); g.R.assign(S, V2(A, V1(S)));
    int rmode = (int)rng.below(3);
    int budget = (int)rng.below(3);        // 0: nothing below the threshold; 1: dropped mass per row <= 8e-7 (sparse accepts); 2: anything
    for (size_t s = 0; s < S; ++s) for (size_t a = 0; a < A; ++a) {
        double eps = epss[rng.below(4)];
        size_t k = rng.coin(1, 3) ? 0 : (size_t)rng.below(S);     // number of sub-threshold entries
        if (budget == 0) k = 0;
        if (budget == 1) k = std::min(k, (size_t)(8e-7 / eps));
        g.T[s][a] = manySubRow(rng, S, k, eps);
        for (size_t s1 = 0; s1 < S; ++s1) g.R[s][a][s1] = makeReward(rng, rmode);
    }
    stat("chain:start");
    auto d = convertLine<MDP::Model>(g);
    convertLine<MDP::SparseModel>(g);
    if (!d) return;
    auto sp = convertLine<MDP::SparseModel>(*d);
    if (!sp) return;
    auto d2 = convertLine<MDP::Model>(*sp);
    if (d2) stat("chain:complete");
}
// fixed shape (caught a seeded change that validated the READ row instead of the STORED row in SparseModel(const M&)):
// a 400-state row with 300 entries of 9e-7 — valid as supplied, 2.7e-4 short of one as stored
static void bigRowCase() {
    const size_t S = 400;
    GenericMdp g; g.S = S; g.A = 1; g.d = 0.5;
    g.T.assign(S, V2(1, V1(S, 0.0))); g.R.assign(S, V2(1, V1(S, 0.0)));
    for (size_t s = 0; s < S; ++s) g.T[s][0][s] = 1.0;
    for (size_t i = 0; i < 300; ++i) g.T[0][0][i + 1] = 9e-7;
    g.T[0][0][0] = 1.0 - 300 * 9e-7;
    auto d = convertLine<MDP::Model>(g);            // dense: accepted
    convertLine<MDP::SparseModel>(g);               // sparse from generic: must be rejected (stored row)
    if (d) convertLine<MDP::SparseModel>(*d);       // sparse from the dense library model: must be rejected too
}

// ------------------------------------------------------------------------------------------ witnesses (lowest indices)
static void witnessCases(long idx) {
    if (idx == 0) {           // NaN discount through the setter; invalid discount through the basic constructor
        MDP::Model m(2, 1, 0.5); Line l; l << "C06" << "op"; kinds<MDP::Model>(l); l << "setDiscount"; dumpState(l, m);
        std::string err = guarded([&] { m.setDiscount(NaN); }); l << "|" << NaN << "|" << err; dumpState(l, m); l.emit();
        MDP::SparseModel sm(2, 1, 0.5); Line l2; l2 << "C06" << "op"; kinds<MDP::SparseModel>(l2); l2 << "setDiscount"; dumpState(l2, sm);
        err = guarded([&] { sm.setDiscount(NaN); }); l2 << "|" << NaN << "|" << err; dumpState(l2, sm); l2.emit();
    } else if (idx == 1) {
        for (double d : {2.0, -1.0, NaN}) {
            std::unique_ptr<MDP::Model> obj; Line l; l << "C06" << "ctor"; kinds<MDP::Model>(l); l << false << "basic" << (size_t)2 << (size_t)1 << d;
            std::string err = guarded([&] { obj.reset(new MDP::Model(2, 1, d)); }); l << "|" << err; if (obj) dumpState(l, *obj); l.emit();
            std::unique_ptr<MDP::SparseModel> ob2; Line l2; l2 << "C06" << "ctor"; kinds<MDP::SparseModel>(l2); l2 << false << "basic" << (size_t)2 << (size_t)1 << d;
            err = guarded([&] { ob2.reset(new MDP::SparseModel(2, 1, d)); }); l2 << "|" << err; if (ob2) dumpState(l2, *ob2); l2.emit();
        }
        Rng r1(777), r2(778); coopCase(r1, 1); coopCase(r2, 2);   // CooperativeModel constructor: discount 2.0 and NaN
    } else if (idx == 2) {    // AMDP with buckets nobody visits: dense R(s,a) = 0/0
        Rng rng(12345); amdpCase<false>(rng, 1); Rng rng2(12345); amdpCase<true>(rng2, 1);
        // single-state POMDP, 3 entropy buckets: the discretizer computes 0/0 and casts NaN to size_t
        Rng rng3(999); amdpCase<false>(rng3, 1, 1, 3); Rng rng4(999); amdpCase<true>(rng4, 1, 1, 3);
    } else if (idx == 3) {    // sparse storage of a valid table whose sub-threshold entries add up to more than the tolerance
        V3 t(1, V2(1)); t[0][0] = {1.0 - 2.7e-6, 9e-7, 9e-7, 9e-7};
        V3 t4(4, V2(1)); for (size_t s = 0; s < 4; ++s) { t4[s][0] = {0, 0, 0, 0}; t4[s][0][s] = 1.0; } t4[0][0] = t[0][0];
        MDP::SparseModel m(4, 1, 0.5); Line l; l << "C06" << "op"; kinds<MDP::SparseModel>(l); l << "setT3D"; dumpState(l, m);
        std::string err = guarded([&] { m.setTransitionFunction(t4); }); l << "|"; put3(l, t4); l << "|" << err; dumpState(l, m); l.emit();
    }
}

// ------------------------------------------------------------------------------------------ case loop
namespace verif {
long verif_ncases(const std::string & tier) { return tier == "thorough" ? 16000 : 1500; }
void verif_case(Rng & rng, long idx, const std::string & tier) {
    if (idx < 4) { witnessCases(idx); return; }
    if (idx == 4) { discCase(rng); return; }
    if (idx == 5) { bigRowCase(); return; }
    if (idx == 6) { amdpZeroBucketsCase(); return; }
    switch (idx % 16) {
        case 0: isprobCase(rng); learnedCase(rng); break;
        case 1: amdpCase<false>(rng, idx); break;
        case 2: amdpCase<true>(rng, idx); break;
        case 3: pushCase(rng); pushCase(rng); break;
        case 4: for (int i = 0; i < 8; ++i) coopCase(rng); break;
        case 5: case 11: historyCase<MDP::Model>(rng, tier); break;
        case 6: case 12: historyCase<MDP::SparseModel>(rng, tier); break;
        case 7: case 13: historyCase<POMDP::Model<MDP::Model>>(rng, tier); break;
        case 8: case 14: historyCase<POMDP::SparseModel<MDP::SparseModel>>(rng, tier); break;
        case 9: historyCase<POMDP::Model<MDP::SparseModel>>(rng, tier); break;
        case 10: historyCase<POMDP::SparseModel<MDP::Model>>(rng, tier); break;
        case 15: chainCase(rng); chainCase(rng); loadCase<MDP::Model>(rng); loadCase<MDP::SparseModel>(rng); break;
    }
}
}
VERIF_MAIN
