// C19 correspondence harness: MCTS, POMCP, rPOMCP driven with an instrumented, harness-supplied
// generative model (the planners are templates over the model: no hook in the library is needed).
//
// The model `GM` logs every sampleSR / sampleSOR call.  States can be *layered*: the state id carries
// the number of transitions taken since the episode start (s = base + nb * t), so the depth of a call
// below the current root is read off the state the planner passes in -- independently of any model of
// the planner.  In plain mode (t always 0) the same state recurs at every depth.
//
// One episode = one planner object driven through several sampleAction calls (fresh, then advancing
// with (action, observation/state), including never-simulated ones, iteration count 0, changing
// horizons).  After each call the call log and a dump of getGraph() are appended.  Lines:
//   C19 run  ...   whole episode: trace validation against the Lean transition system + clauses
//   C19 hz   ...   strict horizon clause on the call depths alone
//   C19 rng  ...   strict return-range clause on the dumped action values alone
#include "common/verif.hpp"
#include <AIToolbox/MDP/Algorithms/MCTS.hpp>
#include <AIToolbox/POMDP/Algorithms/POMCP.hpp>
#include <AIToolbox/POMDP/Algorithms/rPOMCP.hpp>
#include <tuple>
#include <map>
#include <functional>

using namespace verif;

struct Outcome { size_t b1, o; double r; unsigned w; };
struct Call { size_t s, a, s1, o; double r; bool term1; };

struct Core {
    size_t nb = 2, tcap = 1, O = 2, Amax = 2;
    bool layered = false, entropy = false;
    double gamma = 0.5, rmin = 0, rmax = 0, termR = 0;
    std::vector<size_t> numA;                        // per base state
    std::vector<char> term;                          // per base state
    std::vector<std::vector<std::vector<Outcome>>> out;   // [b][a] -> outcomes
    mutable Rng rng{0};
    mutable std::vector<Call> log;
    mutable bool recording = false;
    mutable long clamped = 0, fromTerminal = 0;
    std::vector<double> beliefW;                     // weights of the support states of the next belief handed to a planner

    size_t base(size_t s) const { return s % nb; }
    size_t time(size_t s) const { return s / nb; }
    size_t S() const { return nb * tcap; }
    std::tuple<size_t, size_t, double> step(size_t s, size_t a) const {
        size_t b = base(s), t = time(s);
        size_t b1, o; double r;
        if (term[b]) {
            b1 = b; o = 0; r = termR;
            // a call made on the terminal state the previous call just returned: the simulation ran past a terminal state
            if (recording && !log.empty() && log.back().s1 == s) ++fromTerminal;
        }
        else {
            const auto & os = out[b][a < out[b].size() ? a : 0];
            unsigned tot = 0; for (auto & x : os) tot += x.w;
            unsigned u = (unsigned)rng.below(tot);
            size_t i = 0; while (u >= os[i].w) { u -= os[i].w; ++i; }
            b1 = os[i].b1; o = os[i].o; r = os[i].r;
        }
        size_t t1 = t;
        if (layered) { t1 = t + 1; if (t1 >= tcap) { t1 = tcap - 1; if (recording) ++clamped; } }
        size_t s1 = b1 + nb * t1;
        if (recording) log.push_back(Call{s, a, s1, o, r, (bool)term[b1]});
        return {s1, o, r};
    }
};

// POMCP.hpp calls `rollout(...)` unqualified from namespace AIToolbox::POMDP: it is found only by ADL, i.e. only
// when the model type has AIToolbox::MDP as an associated namespace (true for POMDP::Model<MDP::Model>, false for
// a user type).  A base class in that namespace makes the user-supplied model usable without touching the library.
namespace AIToolbox::MDP { struct VerifAdlTag {}; }

// fixed action space, MDP + POMDP generative interface
struct GMFixed : AIToolbox::MDP::VerifAdlTag {
    const Core * c = nullptr;
    size_t getS() const { return c->S(); }
    size_t getA() const { return c->Amax; }
    size_t getO() const { return c->O; }
    double getDiscount() const { return c->gamma; }
    bool isTerminal(size_t s) const { return c->term[c->base(s)]; }
    std::tuple<size_t, double> sampleSR(size_t s, size_t a) const { auto [s1, o, r] = c->step(s, a); (void)o; return {s1, r}; }
    std::tuple<size_t, size_t, double> sampleSOR(size_t s, size_t a) const { return c->step(s, a); }
};
// variable action space (MCTS and rollout take the getA(s) branch)
struct GMVar {
    const Core * c;
    size_t getS() const { return c->S(); }
    size_t getA(size_t s) const { return c->numA[c->base(s)]; }
    double getDiscount() const { return c->gamma; }
    bool isTerminal(size_t s) const { return c->term[c->base(s)]; }
    std::tuple<size_t, double> sampleSR(size_t s, size_t a) const { auto [s1, o, r] = c->step(s, a); (void)o; return {s1, r}; }
};
// non-integral state type: MCTS hashes it with the user-supplied StateHash (the `hashState` branch)
struct HS { size_t id; };
template <class T> struct HSHash { size_t operator()(const T & s) const { return s.id; } };
struct GMHashed {
    const Core * c;
    HS getS() const { return HS{c->S()}; }
    size_t getA(const HS & s) const { return c->numA[c->base(s.id)]; }
    double getDiscount() const { return c->gamma; }
    bool isTerminal(const HS & s) const { return c->term[c->base(s.id)]; }
    std::tuple<HS, double> sampleSR(const HS & s, size_t a) const { auto [s1, o, r] = c->step(s.id, a); (void)o; return {HS{s1}, r}; }
};
static_assert(AIToolbox::IsGenerativeModel<GMHashed> && AIToolbox::HasIntegralActionSpace<GMHashed>);
static_assert(AIToolbox::MDP::IsGenerativeModel<GMFixed>);
static_assert(AIToolbox::POMDP::IsGenerativeModel<GMFixed>);
static_assert(AIToolbox::IsGenerativeModel<GMVar> && AIToolbox::HasIntegralActionSpace<GMVar> && !AIToolbox::HasFixedActionSpace<GMVar>);

using Path = std::vector<std::pair<size_t, size_t>>;

static void putPath(Line & l, const Path & p) { l << (size_t)p.size(); for (auto & k : p) l << k.first << k.second; }

template <class Node>
static void dumpMcts(const Node & n, Path & p, Line & l, size_t & count) {
    ++count;
    putPath(l, p); l << (size_t)n.N << (size_t)0 << (size_t)n.children.size();
    for (auto & an : n.children) l << (size_t)an.N << an.V;
    for (size_t a = 0; a < n.children.size(); ++a)
        for (auto & kv : n.children[a].children) { p.emplace_back(a, kv.first); dumpMcts(kv.second, p, l, count); p.pop_back(); }
}
template <class Node>
static void dumpPomcp(const Node & n, Path & p, Line & l, size_t & count) {
    ++count;
    putPath(l, p); l << (size_t)n.N; l.nats(n.belief); l << (size_t)n.children.size();
    for (auto & an : n.children) l << (size_t)an.N << an.V;
    for (size_t a = 0; a < n.children.size(); ++a)
        for (auto & kv : n.children[a].children) { p.emplace_back(a, kv.first); dumpPomcp(kv.second, p, l, count); p.pop_back(); }
}
// rPOMCP: the particle map of a belief node is protected; a derived class may form the member pointer
template <bool E>
struct Peek : AIToolbox::POMDP::BeliefNode<E> {
    static const AIToolbox::POMDP::TrackBelief<E> & tb(const AIToolbox::POMDP::BeliefNode<E> & b) { return b.*(&Peek::trackBelief_); }
};
static std::vector<std::pair<size_t, size_t>> g_rcnt;   // (N, sum over action N) of every rPOMCP node of the last dump
template <bool E>
static void dumpR(const AIToolbox::POMDP::BeliefNode<E> & n, Path & p, Line & l, size_t & count) {
    if (count == 0) g_rcnt.clear();
    ++count;
    { size_t sum = 0; for (auto & an : n.children) sum += an.N; g_rcnt.emplace_back(n.N, sum); }
    putPath(l, p); l << (size_t)n.N;
    std::map<size_t, unsigned> tb; for (auto & kv : Peek<E>::tb(n)) tb[kv.first] = kv.second.N;
    l << (size_t)tb.size(); for (auto & kv : tb) l << kv.first << kv.second;
    l << n.getKnowledgeMeasure() << n.V << n.actionsV << (size_t)n.children.size();
    for (auto & an : n.children) l << (size_t)an.N << an.V;
    for (size_t a = 0; a < n.children.size(); ++a)
        for (auto & kv : n.children[a].children) { p.emplace_back(a, kv.first); dumpR<E>(kv.second, p, l, count); p.pop_back(); }
}

// The head node's sampling vector, its total and its engine pointer are private: an explicit template instantiation may
// name private members, which hands the member pointers to `get(Tag)`.
template <typename Tag, typename Tag::type M> struct Rob { friend typename Tag::type get(Tag) { return M; } };
#define VERIF_ROB(TAG, CLASS, MEMBER, TYPE) \
    struct TAG { using type = TYPE CLASS::*; friend type get(TAG); }; template struct Rob<TAG, &CLASS::MEMBER>;
using HeadF = AIToolbox::POMDP::HeadBeliefNode<false>;
using HeadT = AIToolbox::POMDP::HeadBeliefNode<true>;
VERIF_ROB(SbF, HeadF, sampleBelief_, AIToolbox::POMDP::SampleBelief)
VERIF_ROB(SbT, HeadT, sampleBelief_, AIToolbox::POMDP::SampleBelief)
VERIF_ROB(BsF, HeadF, beliefSize_, size_t)
VERIF_ROB(BsT, HeadT, beliefSize_, size_t)
VERIF_ROB(RdF, HeadF, rand_, AIToolbox::RandomEngine *)
VERIF_ROB(RdT, HeadT, rand_, AIToolbox::RandomEngine *)
template <bool E> struct HeadTags;
template <> struct HeadTags<false> { using Sb = SbF; using Bs = BsF; using Rd = RdF; };
template <> struct HeadTags<true>  { using Sb = SbT; using Bs = BsT; using Rd = RdT; };

// rPOMCP only: what the episode needs to see of the head node
struct RHooks {
    std::function<std::vector<std::pair<size_t, size_t>>(size_t, size_t)> childTb;   // particle map of the root's (a, o) child
    std::function<void(Line &)> head;   // sampleBelief_, beliefSize_, getMostCommonParticle(), draws of sampleBelief() with the predicted pick
    size_t beliefParam = 0;
};

// head node: the private vector as it is, the private total, the most common particle, and `n` draws of sampleBelief().
// The draw `pick` is predicted on a copy of the engine (same distribution object type, same state => same number).
template <bool E>
static void dumpHead(const AIToolbox::POMDP::HeadBeliefNode<E> & g, Line & l, unsigned n) {
    using T = HeadTags<E>;
    const auto & sb = g.*get(typename T::Sb{});
    const size_t bsz = g.*get(typename T::Bs{});
    AIToolbox::RandomEngine * eng = g.*get(typename T::Rd{});
    l << (size_t)sb.size(); for (auto & x : sb) l << x.first << (size_t)x.second;
    l << bsz << g.getMostCommonParticle();
    bool sync = true;
    l << (size_t)n;
    for (unsigned i = 0; i < n; ++i) {
        AIToolbox::RandomEngine cp = *eng;
        std::uniform_int_distribution<unsigned> gen(1, bsz);
        int pick = gen(cp);
        size_t res = g.sampleBelief();
        sync = sync && (cp == *eng);
        l << (size_t)pick << res;
    }
    l << sync;
    size_t zero = 0; for (auto & x : sb) zero += x.second == 0;
    std::printf("#stat rhead_entries %zu\n#stat rhead_zero_count_entries %zu\n", sb.size(), zero);
}

static void putLog(Line & l, const std::vector<Call> & log) {
    l << (size_t)log.size();
    for (auto & c : log) l << c.s << c.a << c.s1 << c.o << c.r << c.term1;
}

struct Shape { int kind; /*0 mcts fixed,1 mcts var,2 pomcp,3 rpomcp*/ };

static void genCore(Core & c, Rng & rng, int kind, bool witness, unsigned maxSteps) {
    c.nb = witness ? 2 : 2 + rng.below(3);
    c.layered = witness ? true : rng.coin(3, 4);
    c.tcap = c.layered ? maxSteps : 1;
    c.O = 1 + rng.below(3);
    c.Amax = witness ? 2 : 1 + rng.below(3);
    static const double gs[] = {0.5, 0.75, 1.0, 0.5};
    c.gamma = witness ? 0.5 : gs[rng.below(4)];
    // "ugly" stream: non-dyadic discount and rewards (returns are rounded; values are compared at 1e-9)
    bool ugly = !witness && rng.coin(1, 5);
    static const double ug[] = {0.95, 0.9, 1.0 / 3.0};
    if (ugly) c.gamma = ug[rng.below(3)];
    double unit = ugly ? (rng.coin() ? 0.1 : 1.0 / 3.0) : 0.25;
    if (ugly) std::printf("#stat ugly 1\n");
    // large magnitudes (still dyadic): rewards in multiples of 2^18
    if (!witness && !ugly && rng.coin(1, 10)) { unit = 262144.0; std::printf("#stat large_rewards 1\n"); }
    int rmode = witness ? 2 : (int)rng.below(4);       // 0 mixed, 1 all negative, 2 all positive, 3 mostly zero
    double lo = rmode == 2 ? 0.25 : -4.0, hi = rmode == 1 ? -0.25 : 4.0;
    c.numA.assign(c.nb, c.Amax); c.term.assign(c.nb, 0);
    if (kind == 1) { for (auto & n : c.numA) n = 1 + rng.below(c.Amax); c.numA[rng.below(c.nb)] = c.Amax; }
    if (!witness) for (size_t b = 1; b < c.nb; ++b) if (rng.coin(1, 4)) c.term[b] = 1;
    c.termR = (!witness && rng.coin(1, 2)) ? 0.0 : (rmode == 1 ? -4 * unit : 4 * unit);
    c.out.assign(c.nb, {});
    double mn = 1e9, mx = -1e9;
    for (size_t b = 0; b < c.nb; ++b) {
        c.out[b].resize(c.Amax);
        for (size_t a = 0; a < c.Amax; ++a) {
            size_t k = 1 + rng.below(3);
            for (size_t i = 0; i < k; ++i) {
                Outcome o; o.b1 = rng.below(c.nb); o.o = rng.below(c.O); o.w = 1 + (unsigned)rng.below(3);
                double r = (double)rng.range((int64_t)(lo * 4), (int64_t)(hi * 4)) * unit;
                if (rmode == 3 && rng.coin(3, 4)) r = 0;
                if (witness) r = 1.0;
                o.r = r; c.out[b][a].push_back(o);
                mn = std::min(mn, r); mx = std::max(mx, r);
            }
        }
    }
    bool anyTerm = false; for (auto t : c.term) anyTerm |= (bool)t;
    if (anyTerm) { mn = std::min(mn, c.termR); mx = std::max(mx, c.termR); }
    c.rmin = mn; c.rmax = mx;
}

static void putCore(Line & l, const Core & c, int kind) {
    l << kind << c.layered << c.nb << c.tcap << c.O << c.Amax << c.gamma << c.rmin << c.rmax << c.termR;
    l.nats(c.numA); l.nats(c.term);
    for (size_t b = 0; b < c.nb; ++b) for (size_t a = 0; a < c.Amax; ++a) {
        l << (size_t)c.out[b][a].size();
        for (auto & o : c.out[b][a]) l << o.b1 << o.o << o.r;
    }
}

struct CallPlan { unsigned horizon, iters; double expl = 1.0; size_t bs = 1; };

template <class PlannerT, class FreshF, class AdvF, class DumpF, class HasF>
static void episode(Core & c, int kind, Rng & rng, const std::vector<CallPlan> & plan, double expl, size_t extraParam,
                    PlannerT & pl, FreshF fresh, AdvF adv, DumpF dump, HasF hasChild, bool pomdp, RHooks * rh = nullptr, bool firstAdv = false) {
    Line run; run << "C19" << (kind == 3 ? "rrun" : "run"); putCore(run, c, kind); run << expl << extraParam << c.entropy;
    std::vector<std::string> extra;
    size_t sTrue = 0;          // true environment state: base 0 at time 0 is never terminal
    size_t rootT = 0;          // time layer of the current root
    bool mixed = false;        // root particles spread over several layers (after a uniform restart)
    size_t budget = 0, lastA = 0;
    for (size_t ci = 0; ci < plan.size(); ++ci) {
        unsigned h = plan[ci].horizon, it = plan[ci].iters;
        pl.setIterations(it);
        // the rarely used setters, between calls: exploration constant (any sign) and, for the particle planners, the belief size
        pl.setExploration(plan[ci].expl);
        if constexpr (requires { pl.setBeliefSize(size_t{}); }) pl.setBeliefSize(plan[ci].bs);
        if (rh) rh->beliefParam = plan[ci].bs;
        if (ci > 0 && plan[ci].expl != plan[ci - 1].expl) std::printf("#stat exploration_changed_between_calls 1\n");
        if (ci > 0 && pomdp && plan[ci].bs != plan[ci - 1].bs) std::printf("#stat belief_size_changed_between_calls 1\n");
        size_t ret;
        if (ci == 0 && !firstAdv) {
            std::vector<size_t> support{sTrue};
            if (pomdp && rng.coin(1, 2)) for (size_t b = 1; b < c.nb; ++b) if (!c.term[b] && rng.coin(1, 2)) support.push_back(b);
            // the belief need not contain state 0, and need not be uniform (weights in sixteenths, exact in doubles):
            // `sampleProbability` walks the vector from index 0 and falls back to the last index
            if (pomdp && support.size() > 1 && rng.coin(1, 3)) { support.erase(support.begin()); std::printf("#stat belief_without_state0 1\n"); }
            c.beliefW.assign(support.size(), 1.0 / (double)support.size());
            if (pomdp && support.size() > 1 && rng.coin(1, 2)) {
                std::vector<unsigned> w(support.size(), 1); for (unsigned k = (unsigned)support.size(); k < 16; ++k) ++w[rng.below(w.size())];
                for (size_t i = 0; i < w.size(); ++i) c.beliefW[i] = w[i] / 16.0;
                std::printf("#stat belief_nonuniform 1\n");
            }
            if (pomdp) std::printf("#stat belief_support_size%zu 1\n", support.size());
            run << "fresh"; run.nats(support);
            Line rhl; if (rh) { rhl << "C19" << "rhead" << 0 << c.S() << rh->beliefParam; rhl << (size_t)support.size(); for (auto x : support) rhl << x << (size_t)1; }
            c.log.clear(); c.clamped = 0; c.fromTerminal = 0;
            c.recording = true; ret = fresh(support, h); c.recording = false;
            sTrue = support[rng.below(support.size())];
            budget = h;
            if (rh) { rh->head(rhl); extra.push_back(rhl.os.str()); }
        } else {
            // environment step with the action taken (usually the planner's choice), unlogged
            size_t aTaken = lastA;
            if (rng.coin(1, 4)) aTaken = rng.below(c.numA[c.base(sTrue)]);
            auto [s1, o, r] = c.step(sTrue, aTaken); (void)r;
            size_t key = pomdp ? o : s1;
            if (rng.coin(1, 8)) key = pomdp ? rng.below(c.O + 1) : (rng.below(c.nb) + c.nb * c.time(s1));   // possibly never simulated
            if (!pomdp) s1 = key;                      // MCTS is told the state itself
            if (c.term[c.base(s1)]) { std::printf("#stat episode_ended_terminal 1\n"); break; }
            sTrue = s1;
            bool hit = hasChild(aTaken, key);
            std::printf("#stat advance_%s 1\n", hit ? "hit" : "miss");
            run << "adv" << aTaken << key;
            Line rhl;
            if (rh) {
                rhl << "C19" << "rhead" << (hit ? 1 : 2) << c.S() << rh->beliefParam;
                std::vector<std::pair<size_t, size_t>> ctb; if (hit) ctb = rh->childTb(aTaken, key);
                rhl << (size_t)ctb.size(); for (auto & x : ctb) rhl << x.first << x.second;
            }
            c.log.clear(); c.clamped = 0; c.fromTerminal = 0;
            c.recording = true; ret = adv(aTaken, key, h); c.recording = false;
            if (rh) { rh->head(rhl); extra.push_back(rhl.os.str()); }
            if (ci > 0) rootT += 1; else { rootT = c.time(sTrue); std::printf("#stat advance_before_first_call 1\n"); }
            if (hit) budget = std::max(budget > 0 ? budget - 1 : 0, (size_t)h); else budget = h;
            if (!hit && pomdp) mixed = true;
        }
        lastA = ret;
        run << h << it << ret << plan[ci].expl << plan[ci].bs;
        putLog(run, c.log);
        size_t count = 0; Line d; Path p; dump(d, p, count);
        run << count << d.os.str();
        // strict horizon line: depth of every call below the root, from the state ids alone
        if (c.layered && !mixed) {
            Line hz; hz << "C19" << "hz" << kind << h << it << rootT << (size_t)c.clamped;
            hz << (size_t)c.log.size(); for (auto & cl : c.log) hz << c.time(cl.s);
            extra.push_back(hz.os.str());
        } else {
            Line hz; hz << "C19" << "hzp" << kind << h << it << (size_t)c.log.size();
            extra.push_back(hz.os.str());
        }
        // no simulation continues after the model reported a terminal state (decidable from the log alone only when
        // the state ids carry the time: a root particle may itself be terminal and equal to the previous outcome)
        if (c.layered && !mixed && c.clamped == 0) {
            Line tr; tr << "C19" << "trm" << kind << (size_t)c.log.size() << (size_t)c.fromTerminal;
            extra.push_back(tr.os.str());
        }
        if (kind == 3) {   // literal count clause on every rPOMCP node
            Line rc; rc << "C19" << "rcnt" << (size_t)g_rcnt.size(); for (auto & x : g_rcnt) rc << x.first << x.second;
            extra.push_back(rc.os.str());
        }
        if (kind != 3) {   // strict range line: every action value against the bounds for the remaining horizon
            Line rg; rg << "C19" << "rng" << kind << c.gamma << c.rmin << c.rmax << budget << count << d.os.str();
            extra.push_back(rg.os.str());
        }
        if (c.fromTerminal) std::printf("#stat from_terminal_calls %ld\n", c.fromTerminal);
        if (c.clamped) std::printf("#stat clamped %ld\n", c.clamped);
        std::printf("#stat calls 1\n#stat sim_steps %zu\n#stat nodes %zu\n", c.log.size(), count);
    }
    run << "end";
    run.emit();
    for (auto & e : extra) std::puts(e.c_str());
    std::fflush(stdout);
}

static std::vector<CallPlan> genPlan(Rng & rng, const std::string & tier, bool witness, unsigned & maxSteps) {
    bool th = tier == "thorough";
    std::vector<CallPlan> plan;
    if (witness) { plan.push_back({2, 8}); maxSteps = 2 + 1 + 6; return plan; }
    size_t k = 1 + rng.below(4);
    unsigned h = 1 + (unsigned)rng.below(th ? 8 : 4);
    unsigned hs = 0;
    for (size_t i = 0; i < k; ++i) {
        unsigned it = (unsigned)rng.below(th ? 400 : 60) + 1;
        if (rng.coin(1, 3)) it = (unsigned)rng.below(6);           // tiny runs incl. 0 iterations
        if (i > 0 && rng.coin(1, 5)) it = 0;                         // pure promotion
        plan.push_back({h, it});
        hs = std::max(hs, h);
        int m = (int)rng.below(4);
        if (m == 0 && h > 1) --h; else if (m == 1) h = 1 + (unsigned)rng.below(th ? 8 : 4);
    }
    maxSteps = (unsigned)k + hs + 8;
    return plan;
}

static AIToolbox::POMDP::Belief mkBelief(const Core & c, const std::vector<size_t> & support) {
    AIToolbox::POMDP::Belief b(c.S()); b.setZero();
    for (size_t i = 0; i < support.size(); ++i)
        b[support[i]] = c.beliefW.size() == support.size() ? c.beliefW[i] : 1.0 / (double)support.size();
    return b;
}

// cases 4, 5, 6: `sampleAction(a, key, horizon)` as the very first call on MCTS / POMCP / rPOMCP (fixes/C19-3: the first two
// index an empty vector in the source as first read; a crash of case 4 / 5 is classified by SPEC['classify_crash'])
// case 7: rPOMCP on a self-loop model, fresh call then one advance (fixes/C19-4: the value leaves the achievable range)
static const long kWitness = 8;

long verif::verif_ncases(const std::string & tier) { return kWitness + (tier == "thorough" ? 9000 : 2000); }

void verif::verif_case(Rng & rng, long idx, const std::string & tier) {
    if (idx == 0) {
        // the driver evaluates `log`/`sqrt` itself (Lean Float -> libm); make sure both sides use the same functions:
        // samples of the three expressions the planners evaluate, compared bit for bit by the driver
        Line l; l << "C19" << "lib" << (size_t)48;
        for (unsigned k = 1; k <= 48; ++k) {
            double lg = std::log(k + 1.0);
            double bon = 0.7 * std::sqrt(lg / (double)(1 + k % 7));
            double p = (double)(1 + k % 5) / (double)(k + 5); double pl = p * std::log(p);
            l << lg << bon << pl;
        }
        l.emit();
    }
    bool witness = idx < kWitness;
    static const int wkind[] = {0, 1, 2, 3, 0, 2, 3, 3};
    int kind = witness ? wkind[idx] : (int)rng.below(6);
    // the advancing overload first: witnesses 4..6; at random only for rPOMCP (whose constructor builds the head's action nodes)
    bool firstAdv = witness ? (idx >= 4 && idx <= 6) : ((kind == 3 || kind == 5) && rng.coin(1, 12));     // 4 = MCTS on a hashed non-integral state type, 5 = rPOMCP with the entropy measure
    unsigned maxSteps = 0;
    auto plan = genPlan(rng, tier, witness, maxSteps);
    Core c; genCore(c, rng, kind == 4 ? 1 : (kind == 5 ? 3 : kind), witness, maxSteps);
    c.entropy = kind == 5;
    if (idx == 7) {   // one action, one observation, every state loops on itself: the knowledge measure is 1 at every step
        c.nb = 2; c.Amax = 1; c.O = 1; c.layered = false; c.tcap = 1; c.gamma = 0.5; c.rmin = c.rmax = 1.0;
        c.numA.assign(2, 1); c.term.assign(2, 0); c.out.assign(2, {});
        for (size_t b = 0; b < 2; ++b) c.out[b].assign(1, std::vector<Outcome>{Outcome{b, 0, 1.0, 1}});
        plan.clear(); plan.push_back({2, 10}); plan.push_back({2, 1});
    }
    c.rng = Rng(rng.next());
    AIToolbox::Seeder::setRootSeed((unsigned)rng.next());   // the planners seed their own engine from the global Seeder: make the case replayable
    static const double es[] = {1.0, 0.5, 4.0, 100.0, 0.0, -1.0};
    double expl = witness ? 1.0 : es[rng.below(6)];
    {   // per-call settings: mostly constant over the episode, sometimes changed through the setters
        size_t bs0 = 1 + rng.below(6);
        for (size_t i = 0; i < plan.size(); ++i) {
            plan[i].expl = (i > 0 && !witness && rng.coin(1, 4)) ? es[rng.below(6)] : (i > 0 ? plan[i - 1].expl : expl);
            plan[i].bs = (i > 0 && !witness && rng.coin(1, 4)) ? 1 + rng.below(6) : (i > 0 ? plan[i - 1].bs : bs0);
        }
        if (plan[0].expl < 0) std::printf("#stat exploration_negative 1\n");
    }
    std::printf("#stat kind%d 1\n#stat layered%d 1\n", kind, (int)c.layered);
    if (kind == 0) {
        GMFixed m; m.c = &c; AIToolbox::MDP::MCTS<GMFixed> pl(m, 1, expl);
        episode(c, kind, rng, plan, expl, 0, pl,
            [&](const std::vector<size_t> & s, unsigned h) { return pl.sampleAction(s[0], h); },
            [&](size_t a, size_t k, unsigned h) { return pl.sampleAction(a, k, h); },
            [&](Line & l, Path & p, size_t & n) { dumpMcts(pl.getGraph(), p, l, n); },
            [&](size_t a, size_t k) { auto & g = pl.getGraph(); return a < g.children.size() && g.children[a].children.count(k) > 0; }, false, nullptr, firstAdv);
    } else if (kind == 1) {
        GMVar m{&c}; AIToolbox::MDP::MCTS<GMVar> pl(m, 1, expl);
        episode(c, kind, rng, plan, expl, 0, pl,
            [&](const std::vector<size_t> & s, unsigned h) { return pl.sampleAction(s[0], h); },
            [&](size_t a, size_t k, unsigned h) { return pl.sampleAction(a, k, h); },
            [&](Line & l, Path & p, size_t & n) { dumpMcts(pl.getGraph(), p, l, n); },
            [&](size_t a, size_t k) { auto & g = pl.getGraph(); return a < g.children.size() && g.children[a].children.count(k) > 0; }, false, nullptr, firstAdv);
    } else if (kind == 4) {
        GMHashed m{&c}; AIToolbox::MDP::MCTS<GMHashed, HSHash> pl(m, 1, expl);
        episode(c, 1, rng, plan, expl, 0, pl,
            [&](const std::vector<size_t> & s, unsigned h) { return pl.sampleAction(HS{s[0]}, h); },
            [&](size_t a, size_t k, unsigned h) { return pl.sampleAction(a, HS{k}, h); },
            [&](Line & l, Path & p, size_t & n) { dumpMcts(pl.getGraph(), p, l, n); },
            [&](size_t a, size_t k) { auto & g = pl.getGraph(); return a < g.children.size() && g.children[a].children.count(k) > 0; }, false, nullptr, firstAdv);
    } else if (kind == 2) {
        size_t bs = 1 + rng.below(6);
        GMFixed m; m.c = &c; AIToolbox::POMDP::POMCP<GMFixed> pl(m, bs, 1, expl);
        episode(c, kind, rng, plan, expl, bs, pl,
            [&](const std::vector<size_t> & s, unsigned h) { return pl.sampleAction(mkBelief(c, s), h); },
            [&](size_t a, size_t k, unsigned h) { return pl.sampleAction(a, k, h); },
            [&](Line & l, Path & p, size_t & n) { dumpPomcp(pl.getGraph(), p, l, n); },
            [&](size_t a, size_t k) { auto & g = pl.getGraph(); return a < g.children.size() && g.children[a].children.count(k) > 0; }, true, nullptr, firstAdv);
    } else if (kind == 3) {
        unsigned kk = idx == 7 ? 1000u : 1 + (unsigned)rng.below(12);
        size_t bsP = 1 + rng.below(6);
        GMFixed m; m.c = &c; AIToolbox::POMDP::rPOMCP<GMFixed, false> pl(m, bsP, 1, expl, kk);
        RHooks rh; rh.beliefParam = bsP;
        rh.childTb = [&](size_t a, size_t k) { std::vector<std::pair<size_t, size_t>> v;
            for (auto & kv : Peek<false>::tb(pl.getGraph().children.at(a).children.at(k))) v.emplace_back(kv.first, kv.second.N); return v; };
        rh.head = [&](Line & l) { dumpHead<false>(pl.getGraph(), l, 6); };
        episode(c, 3, rng, plan, expl, kk, pl,
            [&](const std::vector<size_t> & s, unsigned h) { return pl.sampleAction(mkBelief(c, s), h); },
            [&](size_t a, size_t k, unsigned h) { return pl.sampleAction(a, k, h); },
            [&](Line & l, Path & p, size_t & n) { dumpR<false>(pl.getGraph(), p, l, n); },
            [&](size_t a, size_t k) { auto & g = pl.getGraph(); return a < g.children.size() && g.children[a].children.count(k) > 0; }, true, &rh, firstAdv);
    } else {
        unsigned kk = 1 + (unsigned)rng.below(12);
        size_t bsP = 1 + rng.below(6);
        GMFixed m; m.c = &c; AIToolbox::POMDP::rPOMCP<GMFixed, true> pl(m, bsP, 1, expl, kk);
        RHooks rh; rh.beliefParam = bsP;
        rh.childTb = [&](size_t a, size_t k) { std::vector<std::pair<size_t, size_t>> v;
            for (auto & kv : Peek<true>::tb(pl.getGraph().children.at(a).children.at(k))) v.emplace_back(kv.first, kv.second.N); return v; };
        rh.head = [&](Line & l) { dumpHead<true>(pl.getGraph(), l, 6); };
        episode(c, 3, rng, plan, expl, kk, pl,
            [&](const std::vector<size_t> & s, unsigned h) { return pl.sampleAction(mkBelief(c, s), h); },
            [&](size_t a, size_t k, unsigned h) { return pl.sampleAction(a, k, h); },
            [&](Line & l, Path & p, size_t & n) { dumpR<true>(pl.getGraph(), p, l, n); },
            [&](size_t a, size_t k) { auto & g = pl.getGraph(); return a < g.children.size() && g.children[a].children.count(k) > 0; }, true, &rh, firstAdv);
    }
}

VERIF_MAIN
