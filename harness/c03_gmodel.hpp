// C03: a user-defined POMDP model that offers only the element-wise interface (IsModel but not IsModelEigen), in the global namespace
// like any user type. Shared by harness/c03.cpp and the compile probes harness/c03_probe_*.cpp.
// (Not part of the harness build key: touch harness/c03.cpp when changing this file.)
#pragma once
#include <AIToolbox/POMDP/Model.hpp>
#include <AIToolbox/MDP/Model.hpp>
#include <AIToolbox/POMDP/TypeTraits.hpp>
#include <tuple>

struct GModel {
    using PModel = AIToolbox::POMDP::Model<AIToolbox::MDP::Model>;
    const PModel * m;
    explicit GModel(const PModel & pm) : m(&pm) {}
    size_t getS() const { return m->getS(); }
    size_t getA() const { return m->getA(); }
    size_t getO() const { return m->getO(); }
    double getDiscount() const { return m->getDiscount(); }
    double getTransitionProbability(size_t s, size_t a, size_t s1) const { return m->getTransitionProbability(s, a, s1); }
    double getExpectedReward(size_t s, size_t a, size_t s1) const { return m->getExpectedReward(s, a, s1); }
    double getObservationProbability(size_t s1, size_t a, size_t o) const { return m->getObservationProbability(s1, a, o); }
    std::tuple<size_t, double> sampleSR(size_t s, size_t a) const { return m->sampleSR(s, a); }
    std::tuple<size_t, size_t, double> sampleSOR(size_t s, size_t a) const { return m->sampleSOR(s, a); }
    bool isTerminal(size_t s) const { return m->isTerminal(s); }
};
static_assert(AIToolbox::POMDP::IsModel<GModel> && !AIToolbox::POMDP::IsModelEigen<GModel> && !AIToolbox::MDP::IsModelEigen<GModel>);
